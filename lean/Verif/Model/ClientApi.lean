import Verif.Model.Await
/-! # One connection used by consecutive requests, and the high-level client on top of it
(`src/chuk_mcp/client/client.py`: `MCPClient`).

A CONNECTION is one read stream: a list of `(absolute arrival tick, message)` in arrival order.
Requests issued one after the other on it each run the receive loop of `Model/Await.lean` over
what the earlier ones left in the stream: a message that arrived before a request started is still
there when the request starts (arrival tick `≤` start: "already arrived"), and a message consumed
by one request is gone for the next.

`MCPClient` adds a two-state machine on top: a call on a client that is not initialized first issues
`initialize` on the same connection; only when that returns a result the library accepts
(`okInit`; C03 is about which results those are) the client becomes initialized and the call's own
request is issued; otherwise the call fails with the initialize request's failure, its own request
is never written and the client stays uninitialized, so the next call tries again. -/
namespace Verif.Model.ClientApi
open Verif.Model.Await
variable {α : Type}

/-- the stream as a request starting at absolute tick `s` sees it (ticks relative to its start;
everything that arrived earlier has arrival tick 0: already there) -/
def shift (s : Nat) (ev : List (Nat × In α)) : List (Nat × In α) := ev.map (fun x => (x.1 - s, x.2))

/-- consecutive requests on ONE connection: `(configuration, idle ticks before the next request)`;
each record is `(absolute start tick, number of stream entries consumed before it, observation)` -/
def connSeq (R : Int → Bool) : Nat → Nat → List (Nat × In α) → List (Cfg α × Nat) → List (Nat × Nat × Obs α)
  | _, _, _, [] => []
  | start, used, ev, (cfg, gap) :: rest =>
    let o := run R cfg (shift start (ev.drop used))
    (start, used, o) :: connSeq R (start + o.time + gap) (used + o.consumed) ev rest

/-- one call of the high-level client: the configuration of the `initialize` request it issues when
the client is not initialized yet, of its own request, and the idle time after it -/
structure Call (α : Type) where
  init : Cfg α
  req : Cfg α
  gap : Nat

/-- what one call did: where it started, the `initialize` request it issued (if any) and its own
request `(start, stream entries consumed before it, observation)` (if it was issued) -/
structure CallObs (α : Type) where
  start : Nat
  used : Nat
  init : Option (Obs α)
  req : Option (Nat × Nat × Obs α)

/-- did the `initialize` request end with a result the library accepts? -/
def initOk (okInit : α → Bool) (o : Obs α) : Bool :=
  match o.outcome with
  | .returned p => okInit p
  | _ => false

/-- consecutive calls of one `MCPClient` (first argument: `self.initialized`) -/
def clientSeq (R : Int → Bool) (okInit : α → Bool) :
    Bool → Nat → Nat → List (Nat × In α) → List (Call α) → List (CallObs α)
  | _, _, _, _, [] => []
  | true, start, used, ev, c :: rest =>
    let o := run R c.req (shift start (ev.drop used))
    ⟨start, used, none, some (start, used, o)⟩ ::
      clientSeq R okInit true (start + o.time + c.gap) (used + o.consumed) ev rest
  | false, start, used, ev, c :: rest =>
    let oi := run R c.init (shift start (ev.drop used))
    if initOk okInit oi then
      let s' := start + oi.time
      let u' := used + oi.consumed
      let o := run R c.req (shift s' (ev.drop u'))
      ⟨start, used, some oi, some (s', u', o)⟩ ::
        clientSeq R okInit true (s' + o.time + c.gap) (u' + o.consumed) ev rest
    else
      ⟨start, used, some oi, none⟩ ::
        clientSeq R okInit false (start + oi.time + c.gap) (used + oi.consumed) ev rest

end Verif.Model.ClientApi
