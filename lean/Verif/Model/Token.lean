/-! # `CancellationToken` (`send_message.py`): a flag and a list of callbacks

`cancel()` sets the flag and calls every registered callback in registration order, swallowing
(logging) whatever a callback raises; `add_callback` appends and, when the flag is already set,
calls the new callback at once — outside any `try`, so its exception reaches the caller;
`is_cancelled` reads the flag.  Callbacks are identified by numbers; `raises i` says whether
callback `i` raises when called. -/
namespace Verif.Model.Token

structure Tok where
  cancelled : Bool := false
  cbs : List Nat := []
  deriving Repr, DecidableEq

inductive Op where
  | cancel
  | add (id : Nat)
  | query
  deriving Repr, DecidableEq

structure Out where
  /-- callbacks invoked by this operation, in order -/
  invoked : List Nat := []
  /-- the operation raised (to its caller) -/
  raised : Bool := false
  /-- value returned by `is_cancelled` -/
  answer : Option Bool := none
  deriving Repr, DecidableEq

def step (raises : Nat → Bool) (t : Tok) : Op → Tok × Out
  | .cancel => ({ t with cancelled := true }, { invoked := t.cbs })
  | .add i =>
    let t' := { t with cbs := t.cbs ++ [i] }
    if t.cancelled then (t', { invoked := [i], raised := raises i }) else (t', {})
  | .query => (t, { answer := some t.cancelled })

def run (raises : Nat → Bool) : Tok → List Op → Tok × List Out
  | t, [] => (t, [])
  | t, op :: rest =>
    let (t', o) := step raises t op
    let (t'', os) := run raises t' rest
    (t'', o :: os)

end Verif.Model.Token
