import Verif.Model.StdioIn
import Verif.Model.HttpDecide
import Verif.Model.SseReq
import Verif.Model.Rpc

/-! # One server conversation played over each of the four carriers

Nothing is re-modelled here.  This file only says how a *conversation* (a list of exchanges, each
= some notifications followed by one reply) is put on the wire of each carrier — with every free
choice the carrier's encoding leaves open as an explicit parameter — and which function of the
existing models is the read stream the client then sees:

* stdio — `StdioIn.runChunks` (incremental UTF-8 decoder, split on LF, `strip`, parser parameter
  `cfg.parse`); free: LF / CRLF per line, the cutting of the byte stream into reads;
* Streamable HTTP, JSON bodies — `HttpDecide.run` (serial sender loop, decoder parameter `dec`);
  free: the id the client POSTed, any accepted status, session header, object or one-element array;
* Streamable HTTP, SSE bodies — `HttpDecide.run` over `Sse.renderText`; free additionally: event
  field absent / `message` / `response`, optional space after each colon, comment / `id:` /
  `retry:` lines before every field line and before the blank line, events that carry no message
  (data-less keep-alives, comment-only events, extra blank lines, typed non-message events with
  data) before, between and after the message events, LF / CRLF per line, the three ways the
  body may end;
* legacy SSE — `SseReq.runChunks` (event-stream parser) followed by `SseReq.run` (pending-future
  machine of sender task and stream task); free: events before the first message (endpoint
  announcement, keep-alives, comments), LF / CRLF per event, the cutting of the stream into
  chunks, and the moment the `202` of each POST reaches the sender relative to the stream events.

`σ` is what the server means (an abstract message), `W.enc` the text it writes for it, `W.obs`
what a client must see for it.  The second half instantiates all of this with the library's real
codec: `Json.enc` ∘ `Rpc.emit` on the way out, `Json.dec` followed by `Rpc.parseMsg`
(`parse_message`, stdio) or `Rpc.legacyValidate` (`JSONRPCMessage.model_validate`, HTTP and SSE)
on the way in.
-/
namespace Verif.Model.Carrier
open Verif.Model

abbrev Str := List Char

/-! ## conversations -/

/-- what the server sends in answer to one client request: notifications, then the reply -/
structure Exchange (σ : Type) where
  notifs : List σ
  reply : σ
  deriving Repr

def Exchange.msgs {σ : Type} (e : Exchange σ) : List σ := e.notifs ++ [e.reply]

/-- `conversation.flatten`: every message in the order the server sent it -/
def msgsOf {σ : Type} (conv : List (Exchange σ)) : List σ := conv.flatMap Exchange.msgs

inductive Carrier where
  | stdio | httpJson | httpSse | sse
  deriving DecidableEq, Repr

/-- the text encoding and what it stands for -/
structure Wire (σ μ : Type) where
  /-- the text the server writes for a message (one JSON document) -/
  enc : σ → Str
  /-- what the client must find on the read stream -/
  obs : σ → μ
  /-- kind and id as the HTTP transport's message class exposes them -/
  kind : σ → HttpDecide.Kind
  id : σ → Option HttpDecide.Id
  /-- `str(id)` as the legacy SSE transport computes it (`none`: no id) -/
  key : σ → Option Str

def Wire.http {σ μ : Type} (W : Wire σ μ) (s : σ) : HttpDecide.Msg μ := ⟨W.kind s, W.id s, W.obs s⟩
def Wire.sse {σ μ : Type} (W : Wire σ μ) (s : σ) : SseReq.Msg μ := ⟨W.key s, true, W.obs s⟩

/-- an entry of the read stream: a message of the server, or one the transport made up -/
inductive Seen (μ : Type) where
  | msg (m : μ)
  | made
  deriving DecidableEq, Repr

/-- the transcript every carrier has to produce -/
def expected {σ μ : Type} (W : Wire σ μ) (conv : List (Exchange σ)) : List (Seen μ) :=
  (msgsOf conv).map (fun s => .msg (W.obs s))

/-- Which conversations a carrier can express at all.  A JSON body is one message, so an
exchange with notifications does not fit; on the legacy SSE transport the reply is recognised by
its id (`str(id)` equal to the request's), so it must have one and no notification sent before
it may bear the same. -/
def Expressible {σ μ : Type} (W : Wire σ μ) : Carrier → List (Exchange σ) → Prop
  | .httpJson, conv => ∀ e ∈ conv, e.notifs = []
  | .sse, conv => ∀ e ∈ conv, (W.key e.reply).isSome = true ∧ ∀ n ∈ e.notifs, W.key n ≠ W.key e.reply
  | _, _ => True

/-- text that survives every carrier's line / field handling verbatim: one line, starting with
`{` and ending with `}` (what a compact JSON encoder writes for an object) -/
def CleanWire (t : Str) : Prop :=
  '\n' ∉ t ∧ '\r' ∉ t ∧ t.head? = some '{' ∧ t.getLast? = some '}'

instance (t : Str) : Decidable (CleanWire t) := by unfold CleanWire; infer_instance

/-- pair every element with its choice; the default when the choices run out -/
def zipD {γ β δ : Type} (dflt : γ) (f : γ → β → δ) : List β → List γ → List δ
  | [], _ => []
  | b :: bs, [] => f dflt b :: zipD dflt f bs []
  | b :: bs, c :: cs => f c b :: zipD dflt f bs cs

/-- cut a list after the given (increasing) offsets: every way of chunking a stream -/
def cutAt {α : Type} (l : List α) : List Nat → Nat → List (List α)
  | [], _ => [l]
  | c :: cs, pos => l.take (c - pos) :: cutAt (l.drop (c - pos)) cs (max c pos)

/-! ## stdio -/

def codes (t : Str) : List Nat := t.map Char.toNat

/-- the lines the child writes: one per message; `true` = terminated by CRLF -/
def stdioItems {σ μ : Type} (W : Wire σ μ) (msgs : List σ) (crlf : List Bool) : List StdioIn.Item :=
  zipD false (fun b s => ⟨codes (W.enc s), b⟩) msgs crlf

/-- the bytes on the child's stdout -/
def stdioBytes {σ μ : Type} (W : Wire σ μ) (conv : List (Exchange σ)) (crlf : List Bool) : List Nat :=
  StdioIn.encode (StdioIn.render (stdioItems W (msgsOf conv) crlf))

def stdioObserve {μ : Type} (cfg : StdioIn.Cfg μ) (chunks : List (List Nat)) : List (Seen μ) :=
  (StdioIn.delivered (StdioIn.runChunks cfg StdioIn.init chunks).2).map .msg

/-- the reader's line parser inverts the text encoding on this message -/
def StdioDecodes {σ μ : Type} (cfg : StdioIn.Cfg μ) (W : Wire σ μ) (s : σ) : Prop :=
  CleanWire (W.enc s) ∧ cfg.parse (codes (W.enc s)) = .single (W.obs s)

/-! ## Streamable HTTP -/

/-- what is free about one POST and its answer -/
structure PostChoice where
  /-- the id the client POSTed -/
  id : Option HttpDecide.Id
  status : Nat
  session : Option String
  /-- JSON bodies only: the reply wrapped in a one-element array -/
  batch : Bool
  deriving Repr

def PostChoice.dflt : PostChoice := ⟨none, 200, none, false⟩

def jsonBody {σ μ : Type} (W : Wire σ μ) (c : PostChoice) (e : Exchange σ) : Str :=
  if c.batch then '[' :: (W.enc e.reply ++ [']']) else W.enc e.reply

def jsonPost {σ μ : Type} (W : Wire σ μ) (c : PostChoice) (e : Exchange σ) :
    HttpDecide.Req × HttpDecide.Behaviour :=
  (⟨c.id⟩, .resp { status := c.status, ctype := .json, session := c.session,
                   body := { text := jsonBody W c e, utf8 := true } })

inductive EvName where
  | absent | message | response
  deriving DecidableEq, Repr

def EvName.str : EvName → Option Str
  | .absent => none
  | .message => some "message".toList
  | .response => some "response".toList

/-- An event of a body that carries no message, whatever the decoder: it is conformant and either
has no data line (typed keep-alive, comment-only event, extra blank line) or is of a type other
than `message` / `response`. -/
def isNoise (e : Sse.Event) : Bool :=
  Sse.Conformant e && (e.data.isEmpty ||
    (decide (Sse.effType e.name ≠ "message".toList) && decide (Sse.effType e.name ≠ "response".toList)))

/-- what is free about the rendering of one message as an SSE event -/
structure EvChoice where
  name : EvName
  nameChoice : Sse.FieldChoice
  dataChoice : Sse.FieldChoice
  /-- comment / `id:` / `retry:` lines between the data line and the blank line -/
  after : List Sse.Ignored := []
  /-- events without a message written in front of this one -/
  before : List Sse.Event := []
  deriving Repr

def EvChoice.dflt : EvChoice := { name := .absent, nameChoice := Sse.dflt, dataChoice := Sse.dflt }

/-- the ignored lines (comments, `id:`, `retry:`) are themselves well-formed and the interleaved
events carry no message -/
def EvChoice.ok (c : EvChoice) : Bool :=
  c.nameChoice.ok && c.dataChoice.ok && c.after.all Sse.Ignored.ok && c.before.all isNoise

def sseEvent {σ μ : Type} (W : Wire σ μ) (c : EvChoice) (s : σ) : Sse.Event :=
  { name := c.name.str, data := [W.enc s], nameChoice := c.nameChoice, dataChoices := [c.dataChoice], after := c.after }

/-- the events written for one message: the interleaved ones, then its own -/
def sseEvents {σ μ : Type} (W : Wire σ μ) (c : EvChoice) (s : σ) : List Sse.Event := c.before ++ [sseEvent W c s]

structure SseBodyChoice where
  post : PostChoice
  evs : List EvChoice
  eols : List Bool
  tail : Sse.Tail
  /-- events without a message after the reply's event -/
  trailing : List Sse.Event := []
  deriving Repr

def SseBodyChoice.dflt : SseBodyChoice := { post := PostChoice.dflt, evs := [], eols := [], tail := .full }

def SseBodyChoice.ok (c : SseBodyChoice) : Bool :=
  decide (c.post.status < 400) && c.evs.all EvChoice.ok && c.trailing.all isNoise

def sseBodyEvents {σ μ : Type} (W : Wire σ μ) (c : SseBodyChoice) (e : Exchange σ) : List Sse.Event :=
  (zipD EvChoice.dflt (sseEvents W) e.msgs c.evs).flatMap id ++ c.trailing

def sseBodyText {σ μ : Type} (W : Wire σ μ) (c : SseBodyChoice) (e : Exchange σ) : Str :=
  Sse.renderText (sseBodyEvents W c e) c.eols c.tail

def sseBodyPost {σ μ : Type} (W : Wire σ μ) (c : SseBodyChoice) (e : Exchange σ) :
    HttpDecide.Req × HttpDecide.Behaviour :=
  (⟨c.post.id⟩, .resp { status := c.post.status, ctype := .sse, session := c.post.session,
                        body := { text := sseBodyText W c e, utf8 := true } })

/-- the body decoder inverts the text encoding on this message (as an object, and inside a
one-element array) -/
def HttpDecodes {σ μ : Type} (dec : HttpDecide.Dec μ) (W : Wire σ μ) (s : σ) : Prop :=
  CleanWire (W.enc s) ∧ dec.json (W.enc s) = some (.msg (W.http s))
    ∧ dec.json ('[' :: (W.enc s ++ [']'])) = some (.arr [.msg (W.http s)])

def httpSeen {μ : Type} : HttpDecide.Out μ → Seen μ
  | .pass m => .msg m.payload
  | .synth _ => .made

def httpObserve {μ : Type} (dec : HttpDecide.Dec μ) (s0 : Option String)
    (posts : List (HttpDecide.Req × HttpDecide.Behaviour)) : List (Seen μ) :=
  (HttpDecide.run dec s0 posts).outs.map httpSeen

/-! ## legacy SSE -/

/-- the event stream: anything but message events first (`pre`: endpoint announcement,
keep-alives, comments), then one `message` event per message of the conversation -/
def sseStream {σ μ : Type} (W : Wire σ μ) (pre : List (SseReq.Ev × Bool)) (conv : List (Exchange σ))
    (crlf : List Bool) : List (SseReq.Ev × Bool) :=
  pre ++ zipD false (fun b s => (SseReq.Ev.message (W.enc s), b)) (msgsOf conv) crlf

def sseText {σ μ : Type} (W : Wire σ μ) (pre : List (SseReq.Ev × Bool)) (conv : List (Exchange σ))
    (crlf : List Bool) : Str := SseReq.renderText (sseStream W pre conv crlf)

/-- `_handle_message_event`'s `json.loads` on every message action, in stream order (a text the
decoder rejects is dropped) -/
def decodeAct {μ : Type} (dec : Str → Option (SseReq.Msg μ)) : SseReq.Act → Option (SseReq.Msg μ)
  | .message d => dec d
  | .endpoint _ => none

def sseDecoded {μ : Type} (dec : Str → Option (SseReq.Msg μ)) (acts : List SseReq.Act) : List (SseReq.Msg μ) :=
  acts.filterMap (decodeAct dec)

/-- the steps of sender task and stream task for one exchange whose stream messages are `ms`:
the request is registered and POSTed, `ack` of the messages are handled by the stream task, the
`202` reaches the sender, the remaining messages are handled -/
def sseSteps {μ : Type} (k : Str) (ack : Nat) (ms : List (SseReq.Msg μ)) : List (SseReq.Action μ) :=
  [.register k] ++ (ms.take ack).map .event ++ [.post .accepted] ++ (ms.drop ack).map .event

/-- requests are strictly sequential: per request its key, the number of stream messages that
belong to its exchange, and `ack`; what is left on the stream afterwards is handled with no
request in flight -/
def sseSchedule {μ : Type} : List (Str × Nat × Nat) → List (SseReq.Msg μ) → List (SseReq.Action μ)
  | [], ms => ms.map .event
  | (k, n, ack) :: rest, ms => sseSteps k ack (ms.take n) ++ sseSchedule rest (ms.drop n)

/-- the requests of a conversation: the client's request bears the id the reply answers -/
def sseShape {σ μ : Type} (W : Wire σ μ) (conv : List (Exchange σ)) (acks : List Nat) : List (Str × Nat × Nat) :=
  zipD 0 (fun ack e => ((W.key e.reply).getD [], e.notifs.length + 1, ack)) conv acks

/-- the event decoder inverts the text encoding on this message -/
def SseDecodes {σ μ : Type} (dec : Str → Option (SseReq.Msg μ)) (W : Wire σ μ) (s : σ) : Prop :=
  CleanWire (W.enc s) ∧ dec (W.enc s) = some (W.sse s)

def sseSeen {μ : Type} : SseReq.Out μ → Seen μ
  | .routed m => .msg m.body
  | _ => .made

def sseObserve {μ : Type} (dec : Str → Option (SseReq.Msg μ)) (shape : List (Str × Nat × Nat))
    (chunks : List Str) : List (Seen μ) :=
  ((SseReq.run SseReq.St.init
      (sseSchedule shape (sseDecoded dec (SseReq.runChunks SseReq.PSt.init chunks).2))).out).map sseSeen

/-! ## any carrier -/

/-- everything a carrier leaves open when it carries a conversation, with its decoder parameter -/
inductive Play (μ : Type) : Carrier → Type where
  | stdio (cfg : StdioIn.Cfg μ) (crlf : List Bool) (chunks : List (List Nat)) : Play μ .stdio
  | httpJson (dec : HttpDecide.Dec μ) (s0 : Option String) (choices : List PostChoice) : Play μ .httpJson
  | httpSse (dec : HttpDecide.Dec μ) (s0 : Option String) (choices : List SseBodyChoice) : Play μ .httpSse
  | sse (dec : Str → Option (SseReq.Msg μ)) (pre : List (SseReq.Ev × Bool)) (crlf : List Bool)
      (chunks : List Str) (acks : List Nat) : Play μ .sse

/-- the read-stream transcript the carrier's model delivers -/
def Play.observe {σ μ : Type} {c : Carrier} (W : Wire σ μ) (conv : List (Exchange σ)) : Play μ c → List (Seen μ)
  | .stdio cfg _ chunks => stdioObserve cfg chunks
  | .httpJson dec s0 choices => httpObserve dec s0 (zipD PostChoice.dflt (jsonPost W) conv choices)
  | .httpSse dec s0 choices => httpObserve dec s0 (zipD SseBodyChoice.dflt (sseBodyPost W) conv choices)
  | .sse dec _ _ chunks acks => sseObserve dec (sseShape W conv acks) chunks

/-- the choices are ones the carrier's encoding allows, what arrives is a cutting of what the
server wrote, and the decoder parameter inverts the text encoding on every message of the
conversation -/
def Play.Valid {σ μ : Type} {c : Carrier} (W : Wire σ μ) (conv : List (Exchange σ)) : Play μ c → Prop
  | .stdio cfg crlf chunks =>
    (∀ s ∈ msgsOf conv, StdioDecodes cfg W s) ∧ chunks.flatten = stdioBytes W conv crlf
  | .httpJson dec _ choices =>
    (∀ c ∈ choices, c.status < 400) ∧ ∀ s ∈ msgsOf conv, HttpDecodes dec W s
  | .httpSse dec _ choices =>
    (∀ c ∈ choices, c.ok = true) ∧ ∀ s ∈ msgsOf conv, HttpDecodes dec W s
  | .sse dec pre crlf chunks _ =>
    (∀ p ∈ pre, p.1.Clean ∧ ∀ d, p.1 ≠ .message d) ∧ (∀ s ∈ msgsOf conv, SseDecodes dec W s)
      ∧ chunks.flatten = sseText W pre conv crlf

/-! ## several transport instances in one process -/

section instances
variable {S E O : Type}

/-- a machine: one input, new state and outputs -/
abbrev Machine (S E O : Type) := S → E → S × List O

def runM (step : Machine S E O) : S → List E → S × List O
  | st, [] => (st, [])
  | st, e :: es =>
    let r := step st e
    let r' := runM step r.1 es
    (r'.1, r.2 ++ r'.2)

/-- several instances of one machine alive at once: every input is addressed to one instance (its
index), only that instance's state moves, every output is tagged with the instance it comes from -/
def runTagged (step : Machine S E O) : (Nat → S) → List (Nat × E) → (Nat → S) × List (Nat × O)
  | sts, [] => (sts, [])
  | sts, (i, e) :: es =>
    let r := step (sts i) e
    let r' := runTagged step (fun j => if j = i then r.1 else sts j) es
    (r'.1, r.2.map (fun o => (i, o)) ++ r'.2)

def forInst {α : Type} (i : Nat) (l : List (Nat × α)) : List α := (l.filter (fun p => p.1 = i)).map (·.2)

end instances

/-! ## the library's real codec -/

/-- Python `str(id)` -/
def keyOfId : Rpc.Id → Str
  | .int i => Json.intTok i
  | .str s => s

def httpId : Rpc.Id → HttpDecide.Id
  | .int i => .int i
  | .str s => .str (String.ofList s)

def httpKind (v : Rpc.View) : HttpDecide.Kind :=
  match Rpc.kindOfView v with
  | .request => .request
  | .notification => .notification
  | .response => .result
  | .error => .error
  | .other => .other

/-- a server that builds its messages with the library's constructors and serialises them with
a compact JSON encoder of style `st` -/
def rpcWire (st : Json.Style) : Wire Rpc.Msg Rpc.View where
  enc m := Json.enc st (Rpc.emit m)
  obs := Rpc.view
  kind m := httpKind (Rpc.view m)
  id m := (Rpc.view m).id.map httpId
  key m := (Rpc.view m).id.map keyOfId

/-- a response whose result is a JSON object (every MCP result is one): the unified message class
the HTTP and SSE transports validate with accepts no other result, while `parse_message` (stdio)
falls back to the response class, which does -/
def ObjResult : Rpc.Msg → Prop
  | .response _ (.obj _) => True
  | .response _ _ => False
  | _ => True

def chars (cs : List Nat) : Str := cs.map Char.ofNat

def parsedOpt : Except Rpc.PErr Rpc.View → Option Rpc.View
  | .ok v => some v
  | .error _ => none

/-- stdio: `json.loads(line)` then `parse_message` (per member for an array) -/
def realStdio : StdioIn.Cfg Rpc.View where
  parse cs :=
    match Json.dec (chars cs) with
    | some (.arr xs) => .batch (xs.map (fun x => parsedOpt (Rpc.parseMsg x)))
    | some j => (match Rpc.parseMsg j with
      | .ok v => .single v
      | .error _ => .junk)
    | none => .junk
  isNotif v := v.id.isNone

def viewMsg (v : Rpc.View) : HttpDecide.Msg Rpc.View := ⟨httpKind v, v.id.map httpId, v⟩

mutual
/-- Streamable HTTP: `response.json()` / `json.loads`, then `JSONRPCMessage.model_validate` per
object (`_route_response` walks arrays) -/
def classify : Json.Json → HttpDecide.JVal Rpc.View
  | .arr xs => .arr (classifyList xs)
  | .obj o =>
    match Rpc.legacyValidate o with
    | some v => .msg (viewMsg v)
    | none => .junk
  | .null => .junk
  | .bool _ => .junk
  | .int _ => .junk
  | .flt _ => .junk
  | .str _ => .junk
def classifyList : List Json.Json → List (HttpDecide.JVal Rpc.View)
  | [] => []
  | x :: xs => classify x :: classifyList xs
end

def realHttp : HttpDecide.Dec Rpc.View := ⟨fun t => (Json.dec t).map classify⟩

/-- `str(message_data.get("id"))` for an integer or string id -/
def idKey (o : Rpc.Obj) : Option Str :=
  match Rpc.getKey Rpc.kId o with
  | some (.int i) => some (Json.intTok i)
  | some (.str s) => some s
  | _ => none

def emptyView : Rpc.View := ⟨none, none, none, none, none⟩

/-- legacy SSE: `json.loads(data)`, `str(message_data.get("id"))`, then
`JSONRPCMessage.model_validate`.  (An id that is neither an integer nor a string is rejected by
the validator; its `str()` is not modelled.) -/
def realSse (t : Str) : Option (SseReq.Msg Rpc.View) :=
  match Json.dec t with
  | some (.obj o) =>
    some { key := idKey o,
           ok := (Rpc.legacyValidate o).isSome,
           body := (Rpc.legacyValidate o).getD emptyView }
  | _ => none

end Verif.Model.Carrier
