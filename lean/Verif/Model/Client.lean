/-! # `MCPClient` (`src/chuk_mcp/client/client.py`) as a function of what its helper calls end with

`MCPClient` owns no I/O of its own: every operation is `_ensure_initialized()` followed by ONE typed
request helper on the `(read, write)` pair of its transport, and `initialize()` is `send_initialize`
followed by `transport.set_protocol_version(result.protocolVersion)`.  What a helper call ends with
is decided by the server's answer, i.e. by the read-stream transcript (C01 / C07 / C15), so the
answers are a PARAMETER here: `inits k` = how the k-th `send_initialize` ends, `calls k` = how the
k-th other helper call ends.  Everything proved below holds for every such pair of sequences.

```
initialize():            if self.initialized: return cached
                         result = await send_initialize(...)        # may raise: nothing is changed
                         self.initialized = True; self.server_info = …; self.capabilities = …
                         self.transport.set_protocol_version(result.protocolVersion)
op():                    if not self.initialized: await self.initialize()   # an exception propagates
                         return await send_<op>(...)
```
-/
namespace Verif.Model.Client

inductive Op where
  | init | listTools | callTool | listResources | readResource | listPrompts | getPrompt
  deriving DecidableEq, Repr

/-- how the helper calls end: `ι` what an `InitializeResult` carries besides the version, `ρ` a typed
result, `ε` an exception -/
structure Answers (ι ρ ε : Type) where
  /-- the k-th `send_initialize`: the answered protocol version and the rest, or an exception
  (error reply, unsupported version, timeout, invalid result) -/
  inits : Nat → Except ε (String × ι)
  /-- the k-th other helper call -/
  calls : Nat → Except ε ρ
  /-- the helper of the k-th operation rejects its arguments before it writes anything (a name that is
  not a string, arguments that are not an object …): the exception it raises, if it does -/
  rejects : Nat → Option ε := fun _ => none

structure St (ι : Type) where
  initialized : Bool
  info : Option ι
  /-- `send_initialize` calls so far -/
  nInit : Nat
  /-- other helper calls so far -/
  nCall : Nat
  /-- operations so far -/
  nOp : Nat := 0
  deriving Repr

def St.fresh {ι : Type} : St ι := { initialized := false, info := none, nInit := 0, nCall := 0, nOp := 0 }

/-- what the client does to its transport, in order -/
inductive Ev where
  /-- a helper is called: its request goes out on the write stream -/
  | request (op : Op)
  /-- `transport.set_protocol_version(v)` -/
  | setVersion (v : String)
  deriving DecidableEq, Repr

/-- what an operation hands back to its caller -/
inductive Res (ι ρ ε : Type) where
  /-- `initialize()` on a fresh client: the `InitializeResult` -/
  | initialized (v : String) (info : ι)
  /-- `initialize()` on an initialised client: the cached server info, no traffic -/
  | cached (info : Option ι)
  | value (r : ρ)
  | raised (e : ε)
  deriving Repr

variable {ι ρ ε : Type}

/-- `MCPClient.initialize` -/
def initOp (a : Answers ι ρ ε) (st : St ι) : St ι × Res ι ρ ε × List Ev :=
  if st.initialized then (st, .cached st.info, [])
  else
    match a.inits st.nInit with
    | .ok (v, info) =>
      ({ st with initialized := true, info := some info, nInit := st.nInit + 1 }, .initialized v info,
       [.request .init, .setVersion v])
    | .error e => ({ st with nInit := st.nInit + 1 }, .raised e, [.request .init])

/-- any other operation: `_ensure_initialized()`, then its helper -/
def call (a : Answers ι ρ ε) (st : St ι) (op : Op) : St ι × Res ι ρ ε × List Ev :=
  let r := if st.initialized then (st, (none : Option ε), ([] : List Ev)) else
    match initOp a st with
    | (st', .raised e, ev) => (st', some e, ev)
    | (st', _, ev) => (st', none, ev)
  match r with
  | (st', some e, ev) => (st', .raised e, ev)
  | (st', none, ev) =>
    match a.rejects st.nOp with
    | some e => (st', .raised e, ev)     -- the helper raises before it writes: no request, no answer consumed
    | none =>
    match a.calls st'.nCall with
    | .ok v => ({ st' with nCall := st'.nCall + 1 }, .value v, ev ++ [.request op])
    | .error e => ({ st' with nCall := st'.nCall + 1 }, .raised e, ev ++ [.request op])

def step1 (a : Answers ι ρ ε) (st : St ι) : Op → St ι × Res ι ρ ε × List Ev
  | .init => initOp a st
  | op => call a st op

/-- one operation (and the operation counter) -/
def step (a : Answers ι ρ ε) (st : St ι) (op : Op) : St ι × Res ι ρ ε × List Ev :=
  let r := step1 a st op
  ({ r.1 with nOp := st.nOp + 1 }, r.2.1, r.2.2)

/-- a sequence of operations on one client: final state, what each returned, everything done to
the transport -/
def run (a : Answers ι ρ ε) : St ι → List Op → St ι × List (Res ι ρ ε) × List Ev
  | st, [] => (st, [], [])
  | st, op :: ops =>
    let r := step a st op
    let r' := run a r.1 ops
    (r'.1, r.2.1 :: r'.2.1, r.2.2 ++ r'.2.2)

/-- `connect_to_server`: a client that is initialised on entry (an exception leaves the context) -/
def connect (a : Answers ι ρ ε) (ops : List Op) : St ι × List (Res ι ρ ε) × List Ev :=
  match initOp a St.fresh with
  | (st, .raised e, ev) => (st, [.raised e], ev)
  | (st, r, ev) =>
    let r' := run a st ops
    (r'.1, r :: r'.2.1, ev ++ r'.2.2)

end Verif.Model.Client
