import Verif.Model.Batching

/-! # Model of the stdio reader (`StdioClient._stdout_reader` / `_process_message_data` /
`_route_message`, `transports/stdio/stdio_client.py`)

Bytes and Unicode code points are natural numbers.  The reader is the code's loop:

    buffer += decoder.decode(chunk)          -- incremental UTF-8 decoder (state: ≤ 3 pending bytes)
    lines = buffer.split("\n"); buffer = lines[-1]
    for line in lines[:-1]: line = line.strip(); if not line: continue
        data = json.loads(line); … parse_message … route          -- failures dropped per line

What a *stripped line* means is a PARAMETER (`Cfg.parse`): not JSON / not a message (`junk`), one
message (`single`), or a JSON array (`batch`) whose members the library's parser accepts or not.
Everything proved about framing, ordering and isolation therefore holds for every parser; the
correspondence run instantiates `parse` with the verdicts of the library's real parser on whole
lines.

The model is the model of the REPAIRED reader (an incremental decoder); the pinned code calls
`chunk.decode("utf-8")` per chunk, which raises when a chunk ends inside a character.
-/
namespace Verif.Model.StdioIn
open Verif.Model.Batching

/-! ## UTF-8 -/

/-- Unicode scalar values -/
def isScalar (n : Nat) : Bool := n < 0xD800 || (0xDFFF < n && n < 0x110000)

def encodeChar (n : Nat) : List Nat :=
  if n < 0x80 then [n]
  else if n < 0x800 then [0xC0 + n / 64, 0x80 + n % 64]
  else if n < 0x10000 then [0xE0 + n / 4096, 0x80 + n / 64 % 64, 0x80 + n % 64]
  else [0xF0 + n / 262144, 0x80 + n / 4096 % 64, 0x80 + n / 64 % 64, 0x80 + n % 64]

/-- `text.encode("utf-8")` -/
def encode (cs : List Nat) : List Nat := cs.flatMap encodeChar

def isCont (b : Nat) : Bool := 0x80 ≤ b && b < 0xC0

/-- admissible second byte after lead `l` (CPython checks these as soon as the byte is seen) -/
def secondOk (l b : Nat) : Bool :=
  if l = 0xE0 then 0xA0 ≤ b && b < 0xC0
  else if l = 0xF0 then 0x90 ≤ b && b < 0xC0
  else if l = 0xF4 then 0x80 ≤ b && b < 0x90
  else isCont b

/-- One byte through the incremental decoder.  `pend` = bytes of the unfinished character.
`.error ()` = `UnicodeDecodeError`. -/
def decStep (pend : List Nat) (b : Nat) : Except Unit (Option Nat × List Nat) :=
  match pend with
  | [] =>
    if b < 0x80 then .ok (some b, [])
    else if 0xC2 ≤ b && b < 0xF5 then .ok (none, [b])
    else .error ()
  | [l] =>
    if !secondOk l b then .error ()
    else if l < 0xE0 then .ok (some ((l - 0xC0) * 64 + (b - 0x80)), [])
    else .ok (none, [l, b])
  | [l, b1] =>
    if !isCont b || (l = 0xED && 0xA0 ≤ b1) then .error ()
    else if l < 0xF0 then .ok (some ((l - 0xE0) * 4096 + (b1 - 0x80) * 64 + (b - 0x80)), [])
    else .ok (none, [l, b1, b])
  | [l, b1, b2] =>
    if !isCont b then .error ()
    else .ok (some ((l - 0xF0) * 262144 + (b1 - 0x80) * 4096 + (b2 - 0x80) * 64 + (b - 0x80)), [])
  | _ => .error ()

/-- `decoder.decode(chunk)`: decoded code points and the new pending bytes, or an error (then
nothing of the chunk is returned, as in Python). -/
def decBytes : List Nat → List Nat → Except Unit (List Nat × List Nat)
  | pend, [] => .ok ([], pend)
  | pend, b :: bs =>
    match decStep pend b with
    | .error e => .error e
    | .ok (o, p) =>
      match decBytes p bs with
      | .error e => .error e
      | .ok (cs, p') => .ok (o.toList ++ cs, p')

/-! ## Lines -/

/-- Python's `s.split(sep)` for a one-element separator, returned as (complete lines, last
fragment) — i.e. `(lines[:-1], lines[-1])`. -/
def split (sep : Nat) : List Nat → List (List Nat) × List Nat
  | [] => ([], [])
  | x :: xs =>
    let r := split sep xs
    if x = sep then ([] :: r.1, r.2)
    else match r.1 with
      | [] => ([], x :: r.2)
      | l :: ls => ((x :: l) :: ls, r.2)

def LF : Nat := 10
def CR : Nat := 13

/-- `str.isspace()` on a code point (the set stripped by `str.strip()`) -/
def isPySpace (n : Nat) : Bool :=
  (9 ≤ n && n ≤ 13) || (28 ≤ n && n ≤ 32) || n = 133 || n = 160 || n = 5760 || (8192 ≤ n && n ≤ 8202)
    || n = 8232 || n = 8233 || n = 8239 || n = 8287 || n = 12288

def dropSpaces : List Nat → List Nat
  | [] => []
  | c :: cs => if isPySpace c then dropSpaces cs else c :: cs

/-- `line.strip()` -/
def strip (s : List Nat) : List Nat := (dropSpaces (dropSpaces s).reverse).reverse

/-! ## Messages -/

/-- verdict of `json.loads` + `parse_message` on a stripped, non-empty line -/
inductive Parsed (μ : Type) where
  /-- not JSON, or JSON that `parse_message` rejects -/
  | junk
  /-- one message -/
  | single (m : μ)
  /-- a JSON array; per member: the message `parse_message` returns, or `none` when it raises -/
  | batch (items : List (Option μ))

structure Cfg (μ : Type) where
  parse : List Nat → Parsed μ
  /-- `getattr(msg, "id", None) is None` -/
  isNotif : μ → Bool

/-- what the reader does, in order -/
inductive Out (μ : Type) where
  /-- offered on `client.notifications` (`send_nowait`) -/
  | notify (m : μ)
  /-- sent on the read stream -/
  | deliver (m : μ)
  /-- the single `-32600` error written back to the child's stdin -/
  | reject
  deriving Repr, DecidableEq

/-- `_route_message` -/
def route {μ : Type} (cfg : Cfg μ) (m : μ) : List (Out μ) :=
  if cfg.isNotif m then [.notify m, .deliver m] else [.deliver m]

/-- one member of a batch: routed when `parse_message` accepted it, dropped (alone) otherwise -/
def routeMember {μ : Type} (cfg : Cfg μ) : Option μ → List (Out μ)
  | some m => route cfg m
  | none => []

/-- one complete line (without its LF) -/
def processLine {μ : Type} (cfg : Cfg μ) (batching : Bool) (line : List Nat) : List (Out μ) :=
  let s := strip line
  if s = [] then []
  else match cfg.parse s with
    | .junk => []
    | .single m => route cfg m
    | .batch items =>
      if batching then items.flatMap (routeMember cfg)
      else [.reject]

/-! ## The reader -/

structure St where
  /-- bytes of an unfinished character (incremental decoder state) -/
  pend : List Nat
  /-- `buffer`: the unfinished line -/
  buf : List Nat
  /-- `batch_processor.batching_enabled` -/
  batching : Bool
  /-- `false` once the reader task has ended with an exception -/
  alive : Bool
  deriving Repr, DecidableEq

/-- a fresh client: no version negotiated -/
def init : St := { pend := [], buf := [], batching := supportsBatching none, alive := true }

inductive Ev where
  /-- one read of the child's stdout -/
  | chunk (bytes : List Nat)
  /-- `client.set_protocol_version(v)` while the reader waits for the next read -/
  | setVersion (v : Option (List Char))

/-- one read -/
def feed {μ : Type} (cfg : Cfg μ) (st : St) (bytes : List Nat) : St × List (Out μ) :=
  if !st.alive then (st, [])
  else match decBytes st.pend bytes with
    | .error _ => ({ st with alive := false }, [])
    | .ok (cs, p) =>
      let r := split LF (st.buf ++ cs)
      ({ st with pend := p, buf := r.2 }, r.1.flatMap (processLine cfg st.batching))

def step {μ : Type} (cfg : Cfg μ) (st : St) : Ev → St × List (Out μ)
  | .chunk bytes => feed cfg st bytes
  | .setVersion v => ({ st with batching := supportsBatching v }, [])

def run {μ : Type} (cfg : Cfg μ) : St → List Ev → St × List (Out μ)
  | st, [] => (st, [])
  | st, e :: es =>
    let r := step cfg st e
    let r' := run cfg r.1 es
    (r'.1, r.2 ++ r'.2)

/-- reads only -/
def runChunks {μ : Type} (cfg : Cfg μ) (st : St) (chunks : List (List Nat)) : St × List (Out μ) :=
  run cfg st (chunks.map Ev.chunk)

/-! ## Observables -/

/-- the read stream -/
def delivered {μ : Type} : List (Out μ) → List μ
  | [] => []
  | .deliver m :: r => m :: delivered r
  | _ :: r => delivered r

/-- what is offered on the notification stream -/
def offered {μ : Type} : List (Out μ) → List μ
  | [] => []
  | .notify m :: r => m :: offered r
  | _ :: r => offered r

/-- number of rejection errors written back -/
def rejections {μ : Type} : List (Out μ) → Nat
  | [] => 0
  | .reject :: r => rejections r + 1
  | _ :: r => rejections r

/-- content of the notification stream's buffer when nobody reads it (`send_nowait` into a buffer
of `cap` items; `WouldBlock` is swallowed) -/
def notifBuffer {μ : Type} (cap : Nat) (outs : List (Out μ)) : List μ := (offered outs).take cap

/-! ## Rendering of what the child wrote (vocabulary of the C05 theorems) -/

structure Item where
  /-- text of the line, without terminator -/
  text : List Nat
  /-- terminated by CRLF instead of LF -/
  crlf : Bool

def Item.rendered (it : Item) : List Nat := it.text ++ (if it.crlf then [CR, LF] else [LF])

/-- the text the child wrote -/
def render (items : List Item) : List Nat := items.flatMap Item.rendered

/-! ## Several connections in one process

Every `StdioClient` object has its own decoder state, buffer, `BatchProcessor` and streams; nothing
is shared at module or class level.  `runTagged` plays one event history in which every event
belongs to one of several live connections (tag = connection). -/

def update {α : Type} (f : Nat → α) (i : Nat) (a : α) : Nat → α := fun j => if j = i then a else f j

def runTagged {μ : Type} (cfg : Cfg μ) : (Nat → St) → List (Nat × Ev) → (Nat → St) × List (Nat × Out μ)
  | s, [] => (s, [])
  | s, (i, e) :: es =>
    let r := step cfg (s i) e
    let r' := runTagged cfg (update s i r.1) es
    (r'.1, r.2.map (fun o => (i, o)) ++ r'.2)

/-- the events / outputs of connection `i` -/
def ofConn {α : Type} (i : Nat) (l : List (Nat × α)) : List α :=
  l.filterMap (fun p => if p.1 = i then some p.2 else none)

end Verif.Model.StdioIn
