/-! # Model of the server's session bookkeeping (C19)

`InMemorySessionManager` (`server/session/memory.py`) keeps a dict `session id ↦ SessionInfo`.
The model is an association list with the dict's operations, the clock is an INPUT of every
step (the code reads `time.time()`), the new session id of `create_session` is an INPUT as well
(the code draws it from `uuid4`; the id supply is trusted to be fresh and that hypothesis is
explicit in the theorems that need it).

The two `ProtocolHandler` entry points that touch the store are modelled too:
`handle_message(initialize …)` (activity update for the carried session id, then exactly one
`create_session` with the client's info and the ANSWERED version) and
`handle_message(any other method, session_id)` (activity update only).  The version the server
answers is an abstract function `answer` of the requested one — which versions are answered is
the subject of C04, not of C19.

Types: `ι` session ids, `κ` client-info values, `ν` protocol-version values (opaque). -/
namespace Verif.Model.Session

/-- `SessionInfo` (metadata is not part of the property and is left out) -/
structure Rec (κ ν : Type) where
  client : κ
  version : ν
  created : Int
  last : Int

abbrev Store (ι κ ν : Type) := List (ι × Rec κ ν)

/-- the ways a dispatched message can go, as far as the dispatcher is concerned -/
inductive MsgKind where
  /-- no `method` member (or an empty one): answered "invalid request" / dropped before anything else -/
  | noMethod
  /-- no handler registered: -32601 / dropped -/
  | unknownMethod
  /-- the handler returned a pair -/
  | handlerReturned
  /-- the handler raised: -32603 / dropped -/
  | handlerRaised
  /-- the handler returned something that is not a pair: -32603 / dropped -/
  | handlerNonsense
  deriving DecidableEq, Repr

/-- the Python class an incoming message arrives as: the unified `JSONRPCMessage`, one of the typed
classes (`JSONRPCRequest` / `JSONRPCNotification` / `JSONRPCResponse` / `JSONRPCError`), or what
`parse_message` returns -/
inductive Envelope where
  | unified
  | typed
  | parsed
  deriving DecidableEq, Repr

inductive Op (ι κ ν : Type) where
  /-- `create_session(client_info, protocol_version)`; `id` is the id supply's choice -/
  | create (id : ι) (client : κ) (version : ν)
  /-- `get_session(id)` -/
  | get (id : ι)
  /-- `update_activity(id)` -/
  | touch (id : ι)
  /-- `delete_session(id)` -/
  | delete (id : ι)
  /-- `cleanup_expired(max_age)` -/
  | cleanup (maxAge : Int)
  /-- `list_sessions()` -/
  | list
  /-- `clear_all_sessions()` -/
  | clear
  /-- `get_session_count()` -/
  | count
  /-- `handle_message(initialize, session_id = sid)`; `client`/`requested` are `none` when the
  params carry no `clientInfo` / `protocolVersion` member; `id` is the id supply's choice -/
  | init (sid : Option ι) (id : ι) (client : Option κ) (requested : Option ν)
  /-- `handle_message(m, session_id = sid)` for any other message `m` that has a method -/
  | request (sid : Option ι)
  /-- `handle_message(initialize WITHOUT id, session_id = sid)`: the handler creates the session,
  then fails to build a response for a null id; the dispatcher swallows that and returns nothing —
  the session stays, and nobody is told its id -/
  | initSilent (sid : Option ι) (id : ι) (client : Option κ) (requested : Option ν)
  /-- `handle_message(m, session_id = sid)` for a message of the given kind (request or notification
  alike): what the dispatcher does with the session BEFORE and independently of the handler -/
  | message (sid : Option ι) (k : MsgKind)

/-- what an operation hands back; `σ` is the type of a listing -/
inductive Out (ι κ ν σ : Type) where
  | sid (i : ι)
  | record (r : Option (Rec κ ν))
  | flag (b : Bool)
  | count (n : Nat)
  | listing (s : σ)
  /-- initialize: the new session id and the version written into the response -/
  | inited (i : ι) (answered : ν)
  | unit

def Out.map {ι κ ν σ τ : Type} (f : σ → τ) : Out ι κ ν σ → Out ι κ ν τ
  | .sid i => .sid i
  | .record r => .record r
  | .flag b => .flag b
  | .count n => .count n
  | .listing s => .listing (f s)
  | .inited i a => .inited i a
  | .unit => .unit

/-- the parts of `_handle_initialize` that C19 does not fix -/
structure Cfg (κ ν : Type) where
  /-- requested version (if any) ↦ version the server answers -/
  answer : Option ν → ν
  /-- the `{}` recorded when the params carry no `clientInfo` -/
  noClient : κ

section
variable {ι κ ν : Type} [DecidableEq ι]

/-- `sessions.get(i)` -/
def get : Store ι κ ν → ι → Option (Rec κ ν)
  | [], _ => none
  | (k, r) :: t, i => if k = i then some r else get t i

/-- `sessions[i] = r` (dict assignment: replaces in place or appends) -/
def put : Store ι κ ν → ι → Rec κ ν → Store ι κ ν
  | [], i, r => [(i, r)]
  | (k, v) :: t, i, r => if k = i then (k, r) :: t else (k, v) :: put t i r

/-- `update_activity` -/
def touch (s : Store ι κ ν) (i : ι) (now : Int) : Store ι κ ν × Bool :=
  match get s i with
  | some r => (put s i { r with last := now }, true)
  | none => (s, false)

/-- `delete_session` -/
def del (s : Store ι κ ν) (i : ι) : Store ι κ ν × Bool :=
  (s.filter (fun p => p.1 ≠ i), (get s i).isSome)

/-- the expiry test of `cleanup_expired`: `now - session.last_activity > max_age` -/
def expired (now maxAge : Int) (r : Rec κ ν) : Bool := decide (now - r.last > maxAge)

/-- `cleanup_expired(max_age)` at clock value `now`: new store and the number removed -/
def cleanup (now maxAge : Int) (s : Store ι κ ν) : Store ι κ ν × Nat :=
  (s.filter (fun p => !expired now maxAge p.2), (s.filter (fun p => expired now maxAge p.2)).length)

/-- the code's own shape of `cleanup_expired`: collect the expired ids, then delete one by one -/
def cleanupLoop (now maxAge : Int) (s : Store ι κ ν) : Store ι κ ν × Nat :=
  let ex := (s.filter (fun p => expired now maxAge p.2)).map Prod.fst
  (ex.foldl (fun acc i => (del acc i).1) s, ex.length)

/-- `if session_id: update_activity(session_id)` at the head of `handle_message` -/
def touchOpt (s : Store ι κ ν) (sid : Option ι) (now : Int) : Store ι κ ν :=
  match sid with
  | none => s
  | some i => (touch s i now).1

def step (cfg : Cfg κ ν) (s : Store ι κ ν) (now : Int) :
    Op ι κ ν → Store ι κ ν × Out ι κ ν (Store ι κ ν)
  | .create id c v => (put s id ⟨c, v, now, now⟩, .sid id)
  | .get id => (s, .record (get s id))
  | .touch id => ((touch s id now).1, .flag (touch s id now).2)
  | .delete id => ((del s id).1, .flag (del s id).2)
  | .cleanup a => ((cleanup now a s).1, .count (cleanup now a s).2)
  | .list => (s, .listing s)
  | .clear => ([], .count s.length)
  | .count => (s, .count s.length)
  | .init sid id c rq =>
    (put (touchOpt s sid now) id ⟨c.getD cfg.noClient, cfg.answer rq, now, now⟩,
      .inited id (cfg.answer rq))
  | .request sid => (touchOpt s sid now, .unit)
  | .initSilent sid id c rq =>
    (put (touchOpt s sid now) id ⟨c.getD cfg.noClient, cfg.answer rq, now, now⟩, .unit)
  | .message sid k =>
    (match k with
      | .noMethod => s  -- `if not method: return …` comes before the activity update
      | _ => touchOpt s sid now,  -- the update comes before handler lookup and call
     .unit)

/-- `handle_message` on a message of kind `k` arriving as envelope class `e`: the dispatcher reads
`method` and `id` through `getattr` and never looks at the class -/
def dispatchStep (cfg : Cfg κ ν) (s : Store ι κ ν) (now : Int) (e : Envelope) (sid : Option ι) (k : MsgKind) :
    Store ι κ ν × Out ι κ ν (Store ι κ ν) :=
  match e with
  | .unified => step cfg s now (.message sid k)
  | .typed => step cfg s now (.message sid k)
  | .parsed => step cfg s now (.message sid k)

/-- a history: each operation with the clock value at which it runs -/
abbrev Hist (ι κ ν : Type) := List (Int × Op ι κ ν)

def runFrom (cfg : Cfg κ ν) (s : Store ι κ ν) :
    Hist ι κ ν → Store ι κ ν × List (Out ι κ ν (Store ι κ ν))
  | [] => (s, [])
  | (now, op) :: rest =>
    let r := runFrom cfg (step cfg s now op).1 rest
    (r.1, (step cfg s now op).2 :: r.2)

/-- final store and the list of outputs of a history started on the empty store -/
def run (cfg : Cfg κ ν) (h : Hist ι κ ν) : Store ι κ ν × List (Out ι κ ν (Store ι κ ν)) :=
  runFrom cfg [] h

/-- the store after every step (for the correspondence run) -/
def trace (cfg : Cfg κ ν) (s : Store ι κ ν) : Hist ι κ ν → List (Store ι κ ν)
  | [] => []
  | (now, op) :: rest => (step cfg s now op).1 :: trace cfg (step cfg s now op).1 rest

/-- the id an operation draws from the id supply, if it draws one -/
def Op.newId : Op ι κ ν → Option ι
  | .create id _ _ => some id
  | .init _ id _ _ => some id
  | .initSilent _ id _ _ => some id
  | _ => none

/-- ids handed out by the id supply along a history (creates and initializes), oldest first -/
def supplied : Hist ι κ ν → List ι
  | [] => []
  | (_, op) :: rest =>
    match op.newId with
    | some id => id :: supplied rest
    | none => supplied rest

def keys (s : Store ι κ ν) : List ι := s.map Prod.fst

end
end Verif.Model.Session
