import Verif.Model.Sse
/-!
# The streaming branch of `_process_sse_response`

`transports/http/transport.py`, `_process_sse_response`, the part after the `hasattr(response,
"text")` shortcut: chunks of text are appended to a buffer, every complete line is cut off at
the first LF, CR-stripped and interpreted; the unterminated rest of the buffer is dropped at the
end.  With httpx the shortcut is always taken (a response always has `.text`), so this branch
is unreachable through `http_client()`; it still carries the PRE-REPAIR line grammar (the
prefixes `"event: "` and `"data: "` with the space are required, an event is dispatched only when
it has an explicit, non-empty event type).  The model states exactly that, so that the theorems
say what the branch would do if it were ever reached.

The `while "\n" in buffer: line, buffer = buffer.split("\n", 1)` loop is modelled as a
character-level machine: the buffer is the current partial line.
-/
namespace Verif.Model.SseStream
open Verif.Model.Sse

def pEvent : Str := "event: ".toList
def pData : Str := "data: ".toList

/-- blank line / end of input: `if current_event and event_data: process(...)`, then reset -/
def legacyDispatch (st : St) : St :=
  match st.ev with
  | some n => if n ≠ [] ∧ st.data ≠ [] then clean (st.out ++ [(n, joinNl st.data)]) else clean st.out
  | none => clean st.out

def legacyStep (st : St) (line : Str) : St :=
  if line = [] then legacyDispatch st
  else if pEvent.isPrefixOf line then { st with ev := some (strip (line.drop 7)) }
  else if pData.isPrefixOf line then { st with data := st.data ++ [line.drop 6] }
  else st

/-- one character of input: LF completes the buffered line -/
def feedChar (s : Str × St) (c : Char) : Str × St :=
  if c = '\n' then ([], legacyStep s.2 (rstripCR s.1)) else (s.1 ++ [c], s.2)

def feedChunk (s : Str × St) (chunk : Str) : Str × St := chunk.foldl feedChar s

/-- the events handed to `_process_sse_event` for a chunked body; the unterminated last line is dropped -/
def parseStream (chunks : List Str) : List (Str × Str) :=
  (legacyDispatch (chunks.foldl feedChunk ([], clean [])).2).out

/-- the stream breaks off with an exception after these chunks: what was dispatched so far
    (no end-of-input dispatch; the caller then routes one error with the request's id) -/
def parseStreamAborted (chunks : List Str) : List (Str × Str) :=
  (chunks.foldl feedChunk ([], clean [])).2.out

/-- a rendering the legacy grammar understands: explicit event type, one space after each colon -/
structure PlainEvent where
  name : Str
  data : List Str
  deriving Repr, DecidableEq

def plainLines (e : PlainEvent) : List Str :=
  (pEvent ++ e.name) :: e.data.map (pData ++ ·) ++ [[]]

def PlainOk (e : PlainEvent) : Bool :=
  noBreak e.name && okName e.name && !e.name.isEmpty && !e.data.isEmpty && e.data.all noBreak

end Verif.Model.SseStream
