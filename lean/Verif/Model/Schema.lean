/-! # Schema — model of the FALLBACK validation backend of `mcp_pydantic_base.py`

Executable model of `McpPydanticBase.__init__` / `_deep_validate` / `model_dump` of the fallback
backend (the code that runs with `MCP_FORCE_FALLBACK=1` or without Pydantic), over schemas that
are REGENERATED from the package on every run (`Gen/Schemas.lean`).

The model is the model of the *repaired* behaviour where the pinned commit violates C09
(DESIGN.md section 6): a union keeps a value that already has one of its member types
(F-C09a: the digit-string id), `Literal[...]` members are enforced (F-C09d: discriminated
content; an `audio` block is typed `ImageContent` by the pinned code), `Optional[Union[A,B]]` keeps
all its members, a member named `self` is an ordinary unknown member (the pinned constructor takes
`self` as a keyword-capable parameter).  Everything else follows the code as it is: alias processing by dict assignment, defaults,
extras kept, `None` handling, member-by-member union trial in declaration order, the str/int/bool
coercions, post-init hooks, `model_dump(by_alias, exclude_none)`.

Specification side (same file): `conforms` (spec-valid wire value of a type), `expected` (the value
`dump ∘ validate` must produce), `unamb` (no earlier union member accepts), `Preserved` / `AddedOk`
(C10: what the round trip keeps and what it may add).

Private minimal `Json` (another builder owns `Model/Json.lean`; to be unified by the lead):
floats are opaque tokens, integral floats are canonicalised to `int` by the harness.

Deliberate deviations (all outside spec-valid input, never produced by the generator):
`float("1.5")`-style string→float coercion is modelled for ASCII integer strings only;
`str.isdigit` is modelled for ASCII digits.  `Optional[Union[A,B]]` is the union it denotes
(the pinned commit collapses it to its first member — part of F-C09a/F-C09d, repaired by
fixes/C09-union-variant.diff).
-/
namespace Verif.Model.Schema

/-- JSON values (member order of objects is kept: the code's dict semantics depend on it). -/
inductive Json where
  | null
  | bool (b : Bool)
  | int (i : Int)
  | flt (tok : String)
  | str (s : String)
  | arr (xs : List Json)
  | obj (kvs : List (String × Json))
  deriving Repr, Inhabited

/-- Type expressions of model fields.  `Union[A,B,C]` is `union A (union B C)`; `Dict[str,T]` is
`dict T` (keys are always `str` in the package; anything else is reported untranslatable). -/
inductive Ty where
  | str | int | float | bool | any
  | lit (vals : List String)
  | opt (t : Ty)
  | list (t : Ty)
  | dict (t : Ty)
  | union (a b : Ty)
  | ref (cls : String)
  deriving Repr, DecidableEq, Inhabited

/-- Typed values: what the constructor stores.  `model` keeps the class id, so the
`type(...).__name__` tree is observable. -/
inductive TVal where
  | leaf (j : Json)
  | list (xs : List TVal)
  | dict (kvs : List (String × TVal))
  | model (cls : String) (fs : List (String × TVal))
  deriving Repr, Inhabited

structure Field where
  /-- Python attribute name -/
  name : String
  /-- wire name: the alias when there is one, else the attribute name -/
  wire : String
  ty : Ty
  /-- member of the backend's required set -/
  required : Bool
  /-- declared default (`default=` or `default_factory()`), `none` when absent or `None` -/
  default : Option TVal
  deriving Repr, Inhabited

structure Class where
  /-- unique id (bare class name when unique, else `Name@module`) — the target of `Ty.ref` -/
  id : String
  /-- `type(...).__name__` -/
  pyName : String
  fields : List Field
  /-- which of `__post_init__` / `model_post_init` the class defines -/
  hooks : List String
  /-- module under `chuk_mcp.protocol` (a wire model) -/
  protocol : Bool
  deriving Repr, Inhabited

abbrev Obj := List (String × Json)

/-- one `.model_dump(` / `.model_dump_json(` call of the library (from the AST, `Gen/DumpSites`) -/
structure DumpSite where
  file : String
  line : Nat
  func : String
  method : String
  recv : String
  /-- `by_alias=True` is passed literally -/
  byAlias : Bool
  exclNone : Bool
  /-- `**kwargs` are forwarded: the caller decides -/
  forwards : Bool
  /-- the receiver's classes are statically known -/
  resolved : Bool
  classes : List String
  /-- some statically known receiver class reaches a field with an alias -/
  classHasAlias : Bool
  /-- the dumped value can reach the wire (not a logging argument, not a forwarder) -/
  feedsWire : Bool
  deriving Repr, Inhabited

structure Cfg where
  classes : List Class
  /-- hook names the modelled backend calls after construction -/
  calls : List String
  /-- the invariant a class's hooks enforce, read on the wire object -/
  inv : String → Obj → Bool

def Cfg.find (cfg : Cfg) (id : String) : Option Class := cfg.classes.find? (fun c => c.id == id)

/-! ## association lists with Python `dict` semantics -/

def lookup {α : Type} (k : String) : List (String × α) → Option α
  | [] => none
  | (k', v) :: r => if k' == k then some v else lookup k r

def hasKey {α : Type} (k : String) (l : List (String × α)) : Bool := l.any (fun p => p.1 == k)

/-- `d[k] = v` on an insertion-ordered dict: an existing key keeps its position -/
def setKey {α : Type} (k : String) (v : α) : List (String × α) → List (String × α)
  | [] => [(k, v)]
  | (k', v') :: r => if k' == k then (k', v) :: r else (k', v') :: setKey k v r

/-- building a dict by successive assignment -/
def collapse {α : Type} (l : List (String × α)) : List (String × α) :=
  l.foldl (fun acc p => setKey p.1 p.2 acc) []

def keysNodup {α : Type} : List (String × α) → Bool
  | [] => true
  | (k, _) :: r => !hasKey k r && keysNodup r

/-! ## helpers on types, fields, leaves -/

def Ty.isOpt : Ty → Bool
  | .opt _ => true
  | _ => false

/-- a non-optional `Literal[...]` member (a tag: `type`, `jsonrpc`, `method`) -/
def Ty.isTag : Ty → Bool
  | .lit _ => true
  | _ => false

def Json.isNull : Json → Bool
  | .null => true
  | _ => false

def TVal.isNone : TVal → Bool
  | .leaf .null => true
  | _ => false

def Class.byName (c : Class) (k : String) : Option Field := c.fields.find? (fun f => f.name == k)
def Class.byWire (c : Class) (k : String) : Option Field := c.fields.find? (fun f => f.wire == k)

/-- `_process_aliases`: an alias key becomes the attribute name, any other key is kept -/
def Class.attrOf (c : Class) (k : String) : String :=
  match c.byWire k with
  | some f => f.name
  | none => k

def Class.hooked (cfg : Cfg) (c : Class) : Bool := c.hooks.any (fun h => cfg.calls.contains h)

/-- ASCII digit strings as Python `int(s)` reads them (optional leading minus) -/
def parseNat (cs : List Char) : Option Nat :=
  if cs.isEmpty || !cs.all Char.isDigit then none
  else some (cs.foldl (fun n c => 10 * n + (c.toNat - '0'.toNat)) 0)

def parseInt (s : String) : Option Int :=
  match s.toList with
  | '-' :: r => (parseNat r).map (fun n => - (n : Int))
  | cs => (parseNat cs).map (fun n => (n : Int))

def pyBoolOfStr (s : String) : Option Bool :=
  let l := s.toLower
  if ["true", "1", "yes", "on"].contains l then some true
  else if ["false", "0", "no", "off"].contains l then some false
  else none

/-- the repaired union rule: a value whose Python type IS one of the member classes is kept -/
def exactAny : Ty → Json → Bool
  | .union a b, j => exactAny a j || exactAny b j
  | .str, .str _ => true
  | .int, .int _ => true
  | .float, .flt _ => true
  | .bool, .bool _ => true
  | _, _ => false

/-- leaf validation of the primitive classes (`_deep_validate`, origin None, class branch) -/
def validatePrim (t : Ty) (j : Json) : Except String TVal :=
  match t, j with
  | .str, .str s => .ok (.leaf (.str s))
  | .str, .int i => .ok (.leaf (.str (toString i)))
  | .str, .bool b => .ok (.leaf (.str (if b then "True" else "False")))
  | .str, .flt tok => .ok (.leaf (.str tok))
  | .int, .bool b => .ok (.leaf (.bool b))
  | .int, .int i => .ok (.leaf (.int i))
  | .int, .str s => match parseInt s with
      | some n => .ok (.leaf (.int n))
      | none => .error "value is not a valid integer"
  | .float, .int i => .ok (.leaf (.int i))
  | .float, .flt tok => .ok (.leaf (.flt tok))
  | .float, .bool b => .ok (.leaf (.int (if b then 1 else 0)))
  | .float, .str s => match parseInt s with
      | some n => .ok (.leaf (.int n))
      | none => .error "value is not a valid float"
  | .bool, .bool b => .ok (.leaf (.bool b))
  | .bool, .str s => match pyBoolOfStr s with
      | some b => .ok (.leaf (.bool b))
      | none => .error "value is not a valid boolean"
  | .lit vs, .str s => if vs.contains s then .ok (.leaf (.str s)) else .error "literal mismatch"
  | _, _ => .error "type error"

/-- value of a declared field after the members were validated -/
def fieldValue (f : Field) (p : List (String × Except String TVal)) : Except String TVal :=
  match lookup f.name p with
  | some r => r
  | none => match f.default with
    | some d => .ok d
    | none => if f.ty.isOpt then .ok (.leaf .null) else .error "field required"

def seqFields : List (String × Except String TVal) → Except String (List (String × TVal))
  | [] => .ok []
  | (k, r) :: rest => match r, seqFields rest with
    | .ok v, .ok vs => .ok ((k, v) :: vs)
    | .error e, _ => .error e
    | _, .error e => .error e

/-- constructor after the members have been validated one by one: dict assignment (a later
duplicate of an attribute wins), declared fields in declaration order with defaults, extras
after them in input order, hooks last. -/
def assemble (cfg : Cfg) (c : Class) (kvs : Obj) (members : List (String × Except String TVal)) :
    Except String TVal :=
  let p := collapse members
  let declared := c.fields.map (fun f => (f.name, fieldValue f p))
  let extras := p.filter (fun m => (c.byName m.1).isNone)
  match seqFields (declared ++ extras) with
  | .error e => .error e
  | .ok fs => if c.hooked cfg && !cfg.inv c.id kvs then .error "post-init hook raised" else .ok (.model c.id fs)

mutual
/-- `_deep_validate` (repaired, see the header) -/
def validate (cfg : Cfg) (t : Ty) (j : Json) : Except String TVal :=
  match t, j with
  | t, .null => if t.isOpt then .ok (.leaf .null) else .error "field required"
  | .any, j => .ok (.leaf j)
  | .opt t, j => validate cfg t j
  | .union a b, j =>
    if exactAny (.union a b) j then .ok (.leaf j)
    else match validate cfg a j with
      | .ok v => .ok v
      | .error _ => validate cfg b j
  | .list t, .arr xs =>
    if t = .any then .ok (.list (xs.map .leaf))
    else match validateList cfg t xs with
      | .ok vs => .ok (.list vs)
      | .error e => .error e
  | .list _, _ => .error "value is not a valid list"
  | .dict t, .obj kvs =>
    if t = .any then .ok (.dict (kvs.map (fun p => (p.1, .leaf p.2))))
    else match validateVals cfg t kvs with
      | .ok vs => .ok (.dict vs)
      | .error e => .error e
  | .dict _, _ => .error "value is not a valid dict"
  | .ref cls, .obj kvs =>
    match cfg.find cls with
    | none => .error "unknown class"
    | some c => assemble cfg c kvs (validateMembers cfg c kvs)
  | .ref _, _ => .error "value is not a valid model"
  | t, j => validatePrim t j
termination_by (sizeOf j, sizeOf t)

def validateList (cfg : Cfg) (t : Ty) (xs : List Json) : Except String (List TVal) :=
  match xs with
  | [] => .ok []
  | x :: r => match validate cfg t x, validateList cfg t r with
    | .ok v, .ok vs => .ok (v :: vs)
    | .error e, _ => .error e
    | _, .error e => .error e
termination_by (sizeOf xs, 0)

def validateVals (cfg : Cfg) (t : Ty) (kvs : List (String × Json)) : Except String (List (String × TVal)) :=
  match kvs with
  | [] => .ok []
  | (k, x) :: r => match validate cfg t x, validateVals cfg t r with
    | .ok v, .ok vs => .ok ((k, v) :: vs)
    | .error e, _ => .error e
    | _, .error e => .error e
termination_by (sizeOf kvs, 0)

/-- each input member under its attribute name with its validation result (extras are kept raw) -/
def validateMembers (cfg : Cfg) (c : Class) (kvs : List (String × Json)) : List (String × Except String TVal) :=
  match kvs with
  | [] => []
  | (k, x) :: r =>
    (c.attrOf k, match c.byName (c.attrOf k) with
      | some f => validate cfg f.ty x
      | none => .ok (.leaf x)) :: validateMembers cfg c r
termination_by (sizeOf kvs, 0)
end

/-! ## `model_dump` -/

def outKey (cfg : Cfg) (byAlias : Bool) (cls k : String) : String :=
  if byAlias then
    match cfg.find cls with
    | some c => match c.byName k with
      | some f => f.wire
      | none => k
    | none => k
  else k

mutual
/-- `model_dump(by_alias=…, exclude_none=…)` / `_serialize_value` -/
def dump (cfg : Cfg) (byAlias exclNone : Bool) (v : TVal) : Json :=
  match v with
  | .leaf j => j
  | .list xs => .arr (dumpList cfg byAlias exclNone xs)
  | .dict kvs => .obj (dumpVals cfg byAlias exclNone kvs)
  | .model cls fs => .obj (dumpFields cfg byAlias exclNone cls fs)

def dumpList (cfg : Cfg) (byAlias exclNone : Bool) (xs : List TVal) : List Json :=
  match xs with
  | [] => []
  | x :: r => dump cfg byAlias exclNone x :: dumpList cfg byAlias exclNone r

def dumpVals (cfg : Cfg) (byAlias exclNone : Bool) (kvs : List (String × TVal)) : List (String × Json) :=
  match kvs with
  | [] => []
  | (k, x) :: r => (k, dump cfg byAlias exclNone x) :: dumpVals cfg byAlias exclNone r

def dumpFields (cfg : Cfg) (byAlias exclNone : Bool) (cls : String) (fs : List (String × TVal)) : List (String × Json) :=
  match fs with
  | [] => []
  | (k, x) :: r =>
    if exclNone && x.isNone then dumpFields cfg byAlias exclNone cls r
    else (outKey cfg byAlias cls k, dump cfg byAlias exclNone x) :: dumpFields cfg byAlias exclNone cls r
end

/-- the `type(...).__name__` tree: `some` only where a model instance sits -/
inductive TypeTree where
  | none
  | model (name : String) (fs : List (String × TypeTree))
  | list (xs : List TypeTree)
  | dict (kvs : List (String × TypeTree))
  deriving Repr, Inhabited

def TypeTree.isNone : TypeTree → Bool
  | .none => true
  | _ => false

mutual
def typeTree (cfg : Cfg) (v : TVal) : TypeTree :=
  match v with
  | .leaf _ => .none
  | .list xs =>
    let ts := typeTreeList cfg xs
    if ts.all TypeTree.isNone then .none else .list ts
  | .dict kvs =>
    let ts := (typeTreeVals cfg kvs).filter (fun p => !p.2.isNone)
    if ts.isEmpty then .none else .dict ts
  | .model cls fs =>
    .model (match cfg.find cls with | some c => c.pyName | none => cls)
      ((typeTreeVals cfg fs).filter (fun p => !p.2.isNone))

def typeTreeList (cfg : Cfg) (xs : List TVal) : List TypeTree :=
  match xs with
  | [] => []
  | x :: r => typeTree cfg x :: typeTreeList cfg r

def typeTreeVals (cfg : Cfg) (kvs : List (String × TVal)) : List (String × TypeTree) :=
  match kvs with
  | [] => []
  | (k, x) :: r => (k, typeTree cfg x) :: typeTreeVals cfg r
end

/-! ## The specification side: conformance, the expected round trip, sub-object order -/

mutual
/-- `j` is a spec-valid wire value of type `t`: the JSON type each member type denotes, no coercion;
`null` only where the type is optional (and anywhere inside free-form `Any` payloads).
At model level: distinct member names, no `null` members (an absent optional member is absent),
tags and required members present, declared members conform, unknown members are free. -/
def conforms (cfg : Cfg) (t : Ty) (j : Json) : Bool :=
  match t, j with
  | t, .null => t.isOpt
  | .any, _ => true
  | .opt t, j => conforms cfg t j
  | .union a b, j => conforms cfg a j || conforms cfg b j
  | .str, .str _ => true
  | .int, .int _ => true
  | .float, .int _ => true
  | .float, .flt _ => true
  | .bool, .bool _ => true
  | .lit vs, .str s => vs.contains s
  | .list t, .arr xs => t = .any || conformsList cfg t xs
  | .dict t, .obj kvs => keysNodup kvs && (t = .any || conformsVals cfg t kvs)
  | .ref cls, .obj kvs =>
    match cfg.find cls with
    | none => false
    | some c =>
      keysNodup kvs
      && conformsMembers cfg c kvs
      && c.fields.all (fun f => hasKey f.wire kvs || (!f.required && !f.ty.isTag))
      && (!c.hooked cfg || cfg.inv c.id kvs)
  | _, _ => false
termination_by (sizeOf j, sizeOf t)

def conformsList (cfg : Cfg) (t : Ty) (xs : List Json) : Bool :=
  match xs with
  | [] => true
  | x :: r => conforms cfg t x && conformsList cfg t r
termination_by (sizeOf xs, 0)

def conformsVals (cfg : Cfg) (t : Ty) (kvs : List (String × Json)) : Bool :=
  match kvs with
  | [] => true
  | (_, x) :: r => conforms cfg t x && conformsVals cfg t r
termination_by (sizeOf kvs, 0)

/-- every member: not `null`, not the attribute name of an aliased field, not a dunder name,
and of the declared type when it is a declared (wire-named) member -/
def conformsMembers (cfg : Cfg) (c : Class) (kvs : List (String × Json)) : Bool :=
  match kvs with
  | [] => true
  | (k, x) :: r =>
    !x.isNull
    && !k.startsWith "__"
    && c.fields.all (fun f => f.name == f.wire || f.name != k)
    && (match c.byWire k with
        | some f => conforms cfg f.ty x
        | none => true)
    && conformsMembers cfg c r
termination_by (sizeOf kvs, 0)
end

mutual
/-- the value `dump ∘ validate` is specified to produce: the input itself, in which every typed
object lists its declared members first (declaration order, absent ones replaced by the declared
default when there is one) and its unknown members after them, unchanged. -/
def expected (cfg : Cfg) (t : Ty) (j : Json) : Json :=
  match t, j with
  | .opt t, j => expected cfg t j
  | .union a b, j => if exactAny (.union a b) j then j else if conforms cfg a j then expected cfg a j else expected cfg b j
  | .list t, .arr xs => .arr (expectedList cfg t xs)
  | .dict t, .obj kvs => .obj (expectedVals cfg t kvs)
  | .ref cls, .obj kvs =>
    match cfg.find cls with
    | none => .obj kvs
    | some c =>
      let ms := expectedMembers cfg c kvs
      .obj (c.fields.filterMap (fun f => match lookup f.wire ms with
              | some v => some (f.wire, v)
              | none => f.default.map (fun d => (f.wire, dump cfg true true d)))
            ++ ms.filter (fun m => (c.byWire m.1).isNone))
  | _, j => j
termination_by (sizeOf j, sizeOf t)

def expectedList (cfg : Cfg) (t : Ty) (xs : List Json) : List Json :=
  match xs with
  | [] => []
  | x :: r => expected cfg t x :: expectedList cfg t r
termination_by (sizeOf xs, 0)

def expectedVals (cfg : Cfg) (t : Ty) (kvs : List (String × Json)) : List (String × Json) :=
  match kvs with
  | [] => []
  | (k, x) :: r => (k, expected cfg t x) :: expectedVals cfg t r
termination_by (sizeOf kvs, 0)

def expectedMembers (cfg : Cfg) (c : Class) (kvs : List (String × Json)) : List (String × Json) :=
  match kvs with
  | [] => []
  | (k, x) :: r =>
    (k, match c.byWire k with
      | some f => expected cfg f.ty x
      | none => x) :: expectedMembers cfg c r
termination_by (sizeOf kvs, 0)
end

mutual
/-- no union member that precedes the first conforming one accepts the value (the hypothesis
under which member-by-member trial in declaration order picks the right variant) -/
def unamb (cfg : Cfg) (t : Ty) (j : Json) : Bool :=
  match t, j with
  | .opt _, .null => true
  | .opt t, j => unamb cfg t j
  | .union a b, j =>
    if exactAny (.union a b) j then true
    else if conforms cfg a j then unamb cfg a j
    else (match validate cfg a j with | .ok _ => false | .error _ => true) && unamb cfg b j
  | .list t, .arr xs => unambList cfg t xs
  | .dict t, .obj kvs => unambVals cfg t kvs
  | .ref cls, .obj kvs =>
    match cfg.find cls with
    | none => true
    | some c => unambMembers cfg c kvs
  | _, _ => true
termination_by (sizeOf j, sizeOf t)

def unambList (cfg : Cfg) (t : Ty) (xs : List Json) : Bool :=
  match xs with
  | [] => true
  | x :: r => unamb cfg t x && unambList cfg t r
termination_by (sizeOf xs, 0)

def unambVals (cfg : Cfg) (t : Ty) (kvs : List (String × Json)) : Bool :=
  match kvs with
  | [] => true
  | (_, x) :: r => unamb cfg t x && unambVals cfg t r
termination_by (sizeOf kvs, 0)

def unambMembers (cfg : Cfg) (c : Class) (kvs : List (String × Json)) : Bool :=
  match kvs with
  | [] => true
  | (k, x) :: r =>
    (match c.byWire k with
      | some f => unamb cfg f.ty x
      | none => true) && unambMembers cfg c r
termination_by (sizeOf kvs, 0)
end

end Verif.Model.Schema

namespace Verif.Model.Schema

/-! ## Hand-modelled pieces tied by the correspondence run only -/

/-- The invariants the package's post-init hooks enforce, read on the wire object
(`roots/send_messages.py` `Root.__post_init__`, `completions/send_messages.py`
`CompletionResult.__post_init__`, `json_rpc_message.py` `JSONRPCError.model_post_init`,
`JSONRPCMessage.model_validate` + `model_post_init`). -/
def docInv (cls : String) (kvs : Obj) : Bool :=
  let present (k : String) : Bool := match lookup k kvs with
    | some .null => false
    | some _ => true
    | none => false
  match cls with
  | "Root" => match lookup "uri" kvs with
    | some (.str s) => s.startsWith "file://"
    | _ => true
  | "CompletionResult" => match lookup "values" kvs with
    | some (.arr xs) => xs.length ≤ 100
    | _ => true
  | "JSONRPCError" => match lookup "error" kvs with
    | some (.obj []) => true
    | some (.obj e) =>
      (match lookup "code" e with | some (.int _) => true | some (.bool _) => true | _ => false)
      && (match lookup "message" e with | some (.str _) => true | _ => false)
    | _ => true
  | "JSONRPCMessage" =>
    (match lookup "error" kvs with
      | some (.obj e) => hasKey "code" e && hasKey "message" e
      | _ => true)
    && (if present "id" && !present "method" then
          (present "result" != present "error")
        else true)
  | _ => true

/-- `parse_message` on a single (non-batch) object: the legacy unified class first, then the
specific class chosen by member presence. -/
def parseMessage (cfg : Cfg) (j : Json) : Except String TVal :=
  match j with
  | .obj kvs =>
    match validate cfg (.ref "JSONRPCMessage") j with
    | .ok v => .ok v
    | .error _ =>
      match lookup "jsonrpc" kvs with
      | some (.str "2.0") =>
        let hasId := hasKey "id" kvs
        let hasMethod := hasKey "method" kvs
        let hasResult := hasKey "result" kvs
        let hasError := hasKey "error" kvs
        if hasMethod && hasId then validate cfg (.ref "JSONRPCRequest") j
        else if hasMethod && !hasId then validate cfg (.ref "JSONRPCNotification") j
        else if hasId && hasResult && !hasError then validate cfg (.ref "JSONRPCResponse") j
        else if hasId && hasError && !hasResult then validate cfg (.ref "JSONRPCError") j
        else .error "Invalid JSON-RPC message structure"
      | _ => .error "Missing or invalid jsonrpc version"
  | _ => .error "Message must be a dict or list"

end Verif.Model.Schema

namespace Verif.Model.Schema

/-! ## Specification relations of C10 (not executable: `Prop`-valued) -/

mutual
/-- `Preserved j j'`: every member of `j` is preserved exactly in `j'`; objects of `j'` may carry more members -/
def Preserved (j j' : Json) : Prop :=
  match j, j' with
  | .arr xs, .arr ys => ys = xs ∨ PreservedList xs ys
  | .obj kvs, .obj out => out = kvs ∨ PreservedMembers kvs out
  | a, b => b = a
termination_by (sizeOf j, 0)

def PreservedList (xs ys : List Json) : Prop :=
  match xs, ys with
  | [], [] => True
  | x :: r, y :: s => Preserved x y ∧ PreservedList r s
  | _, _ => False
termination_by (sizeOf xs, 0)

def PreservedMembers (kvs out : List (String × Json)) : Prop :=
  match kvs with
  | [] => True
  | (k, x) :: r => (match lookup k out with
      | some y => Preserved x y
      | none => False) ∧ PreservedMembers r out
termination_by (sizeOf kvs, 0)
end

mutual
/-- `AddedOk t j j'`: walking input `j` and output `j'` along the type, every member of a typed
object of `j'` that the input did not have is a declared default of its class -/
def AddedOk (cfg : Cfg) (t : Ty) (j j' : Json) : Prop :=
  match t, j, j' with
  | .opt t, j, j' => AddedOk cfg t j j'
  | .union a b, j, j' =>
    if exactAny (.union a b) j then j' = j
    else if conforms cfg a j then AddedOk cfg a j j' else AddedOk cfg b j j'
  | .list t, .arr xs, .arr ys => AddedList cfg t xs ys
  | .dict t, .obj kvs, .obj out => AddedVals cfg t kvs out
  | .ref cls, .obj kvs, .obj out =>
    match cfg.find cls with
    | none => out = kvs
    | some c =>
      (∀ m ∈ out, hasKey m.1 kvs = false →
        ∃ f ∈ c.fields, f.wire = m.1 ∧ ∃ d, f.default = some d ∧ m.2 = dump cfg true true d)
      ∧ AddedMembers cfg c kvs out
  | _, j, j' => j' = j
termination_by (sizeOf j, sizeOf t)

def AddedList (cfg : Cfg) (t : Ty) (xs ys : List Json) : Prop :=
  match xs, ys with
  | [], [] => True
  | x :: r, y :: s => AddedOk cfg t x y ∧ AddedList cfg t r s
  | _, _ => False
termination_by (sizeOf xs, 0)

def AddedVals (cfg : Cfg) (t : Ty) (kvs out : List (String × Json)) : Prop :=
  match kvs, out with
  | [], [] => True
  | (k, x) :: r, (k', y) :: s => k' = k ∧ AddedOk cfg t x y ∧ AddedVals cfg t r s
  | _, _ => False
termination_by (sizeOf kvs, 0)

/-- the declared members that the input had: walk into them -/
def AddedMembers (cfg : Cfg) (c : Class) (kvs out : List (String × Json)) : Prop :=
  match kvs with
  | [] => True
  | (k, x) :: r =>
    (match c.byWire k, lookup k out with
      | some f, some y => AddedOk cfg f.ty x y
      | _, _ => True) ∧ AddedMembers cfg c r out
termination_by (sizeOf kvs, 0)
end

end Verif.Model.Schema

namespace Verif.Model.Schema

/-! ## Library-side constructors (`create_*` helpers) as expressions over wire values

`Gen/Builders.lean` is REGENERATED from the AST of the helpers: parameters, locals, constants,
list / dict displays, `a or b`, keyword constructor calls; straight-line bodies with
`if <param> [is (not) None]:` guarding one assignment or one `d[key] = …`. -/

inductive BKey where
  | lit (s : String)
  | param (p : String)
  deriving Repr, Inhabited

inductive BCond where
  | truthy (p : String)
  | notNone (p : String)
  | isNone (p : String)
  deriving Repr, Inhabited

inductive BExpr where
  | param (p : String)
  | const (j : Json)
  | list (xs : List BExpr)
  | dict (kvs : List (BKey × BExpr))
  /-- `Class(attr=…, …)`: keyword arguments by ATTRIBUTE name -/
  | model (cls : String) (kws : List (String × BExpr))
  | orElse (a b : BExpr)
  /-- `a if <cond> else b` -/
  | ite (c : BCond) (a b : BExpr)
  deriving Repr, Inhabited

inductive BStmt where
  | assign (x : String) (e : BExpr)
  | assignIf (c : BCond) (x : String) (e : BExpr)
  | setKeyIf (c : BCond) (x : String) (k : BKey) (e : BExpr)
  deriving Repr, Inhabited

structure Builder where
  module : String
  name : String
  /-- parameter names with their default (`none` = required) -/
  params : List (String × Option Json)
  body : List BStmt
  ret : BExpr
  deriving Repr, Inhabited

/-- a `parse_*` helper that dispatches on one member of the wire object -/
structure ParseTable where
  module : String
  name : String
  member : String
  table : List (String × String)
  deriving Repr, Inhabited

/-- Python truthiness of a JSON value -/
def Json.truthy : Json → Bool
  | .null => false
  | .bool b => b
  | .int i => i != 0
  | .flt _ => true
  | .str s => s != ""
  | .arr xs => !xs.isEmpty
  | .obj kvs => !kvs.isEmpty

def evalKey (env : Obj) : BKey → Option String
  | .lit s => some s
  | .param p => match lookup p env with
    | some (.str s) => some s
    | _ => none

def evalCond (env : Obj) : BCond → Option Bool
  | .truthy p => (lookup p env).map Json.truthy
  | .notNone p => (lookup p env).map (fun v => !v.isNull)
  | .isNone p => (lookup p env).map Json.isNull

mutual
def evalB (env : Obj) (e : BExpr) : Option Json :=
  match e with
  | .param p => lookup p env
  | .const j => some j
  | .list xs => (evalBList env xs).map .arr
  | .dict kvs => (evalBDict env kvs).map .obj
  | .model _ kws => (evalBKws env kws).map .obj
  | .orElse a b => match evalB env a with
    | some v => if v.truthy then some v else evalB env b
    | none => none
  | .ite c a b => match evalCond env c with
    | some true => evalB env a
    | some false => evalB env b
    | none => none

def evalBList (env : Obj) (xs : List BExpr) : Option (List Json) :=
  match xs with
  | [] => some []
  | x :: r => match evalB env x, evalBList env r with
    | some v, some vs => some (v :: vs)
    | _, _ => none

def evalBDict (env : Obj) (kvs : List (BKey × BExpr)) : Option (List (String × Json)) :=
  match kvs with
  | [] => some []
  | (k, x) :: r => match evalKey env k, evalB env x, evalBDict env r with
    | some s, some v, some vs =>
      -- a dict display: a repeated key keeps its first position and its last value
      if hasKey s vs then some ((s, (lookup s vs).getD v) :: vs.filter (fun p => p.1 != s)) else some ((s, v) :: vs)
    | _, _, _ => none

def evalBKws (env : Obj) (kws : List (String × BExpr)) : Option (List (String × Json)) :=
  match kws with
  | [] => some []
  | (k, x) :: r => match evalB env x, evalBKws env r with
    | some v, some vs => some ((k, v) :: vs)
    | _, _ => none
end

def execStmt (env : Obj) : BStmt → Option Obj
  | .assign x e => (evalB env e).map (fun v => setKey x v env)
  | .assignIf c x e => match evalCond env c with
    | some true => (evalB env e).map (fun v => setKey x v env)
    | some false => some env
    | none => none
  | .setKeyIf c x k e => match evalCond env c with
    | some true => match lookup x env, evalKey env k, evalB env e with
      | some (.obj d), some s, some v => some (setKey x (.obj (setKey s v d)) env)
      | _, _, _ => none
    | some false => some env
    | none => none

def execBody (env : Obj) : List BStmt → Option Obj
  | [] => some env
  | s :: r => match execStmt env s with
    | some env' => execBody env' r
    | none => none

/-- bind the call's keyword arguments: a missing parameter takes its default, a missing required one fails -/
def bindParams (ps : List (String × Option Json)) (args : Obj) : Option Obj :=
  match ps with
  | [] => some []
  | (p, d) :: r => match (match lookup p args with | some v => some v | none => d), bindParams r args with
    | some v, some env => some ((p, v) :: env)
    | _, _ => none

def BExpr.retClass : BExpr → Option String
  | .model c _ => some c
  | _ => none

/-- what the helper hands to the constructor: the keyword arguments by attribute name (or the plain
value it returns when it builds no model) -/
def Builder.eval (b : Builder) (args : Obj) : Option Json :=
  match bindParams b.params args with
  | none => none
  | some env => match execBody env b.body with
    | none => none
    | some env' => evalB env' b.ret

/-- the helper's result as a typed value -/
def Builder.run (cfg : Cfg) (b : Builder) (args : Obj) : Except String TVal :=
  match b.eval args with
  | none => .error "arguments do not fit the helper"
  | some j => match b.ret.retClass with
    | some c => validate cfg (.ref c) j
    | none => .ok (.leaf j)

/-- `parse_*` dispatch: the class the table names for the member's value -/
def ParseTable.run (cfg : Cfg) (p : ParseTable) (j : Json) : Except String TVal :=
  match j with
  | .obj kvs => match lookup p.member kvs with
    | some (.str s) => match lookup s p.table with
      | some cls => validate cfg (.ref cls) j
      | none => .error "unknown tag"
    | _ => .error "unknown tag"
  | _ => .error "not an object"

end Verif.Model.Schema

namespace Verif.Model.Schema

/-- `complete_enum_value` (completions/send_messages.py): the allowed values that start with what was
typed, in their order; case-insensitive unless asked otherwise (ASCII model of `str.lower`) -/
def completeEnum (current : String) (allowed : List String) (caseSensitive : Bool) : List String :=
  if caseSensitive then allowed.filter (fun v => v.startsWith current)
  else allowed.filter (fun v => v.toLower.startsWith current.toLower)

end Verif.Model.Schema
