/-! # Model of the host configuration path (C20)

`config.py: load_config`, `StdioClient.__init__` / `__aenter__` (the spawn arguments), and the
three host entry points that compose them:

* `loader`  — `load_config` followed by `stdio_client` + `send_initialize` (the documented use),
* `cliTest` — `__main__.test_server`,
* `runner`  — `mcp_client/host/server_manager.run_command` (the model is the *intended*
  behaviour: the parameters returned by the loader are what the transport is given).

A configuration file is modelled by what `open` + `json.load` make of it: it is missing, it
is not JSON, or it is a JSON value `J`.  Everything below `json.load` (the decoder itself), the
process launch and the handshake traffic are runtime facts decided by the correspondence run
with a witness child; the model says WHICH launch must be observed.
-/
namespace Verif.Model.Config

/-- JSON values as `json.load` returns them (numbers kept as decimal mantissa/exponent). -/
inductive J where
  | null
  | bool (b : Bool)
  | num (mantissa : Int) (exponent : Nat)
  | str (s : String)
  | arr (xs : List J)
  | obj (kvs : List (String × J))

abbrev Env := List (String × String)

/-- `dict.get` on a decoded JSON object: for a repeated member name the LAST one wins
(`json.load` builds a dict). -/
def jget : List (String × J) → String → Option J
  | [], _ => none
  | (k', v) :: rest, k =>
    match jget rest k with
    | some w => some w
    | none => if k' = k then some v else none

/-- Python truthiness of a decoded JSON value (`if not server_config`). -/
def falsy : J → Bool
  | .null => true
  | .bool b => !b
  | .num m _ => m == 0
  | .str s => s == ""
  | .arr xs => xs.isEmpty
  | .obj kvs => kvs.isEmpty

inductive Err where
  | fileNotFound        -- FileNotFoundError
  | jsonDecode          -- json.JSONDecodeError
  | valueError          -- ValueError (unknown server name; empty command)
  | validation          -- StdioParameters rejects the member types (outside the property)
  | launchFailed        -- the spawn itself failed (no such executable in the child's environment)
  | other               -- AttributeError / KeyError / TypeError on a mis-shaped document (outside the property)
  deriving DecidableEq, Repr

inductive File where
  | missing
  | invalid
  | json (v : J)

/-- `StdioParameters` -/
structure Params where
  command : String
  args : List String
  env : Option Env
  deriving DecidableEq, Repr

def asStr : J → Option String
  | .str s => some s
  | _ => none

def strs : List J → Option (List String)
  | [] => some []
  | .str s :: xs => (strs xs).map (s :: ·)
  | _ :: _ => none

def strPairs : List (String × J) → Option Env
  | [] => some []
  | (k, .str s) :: xs => (strPairs xs).map ((k, s) :: ·)
  | _ :: _ => none

/-- `List[str]` -/
def strList : J → Option (List String)
  | .arr xs => strs xs
  | _ => none

/-- `Optional[Dict[str, str]]` -/
def optEnv : J → Option (Option Env)
  | .null => some none
  | .obj kvs => (strPairs kvs).map some
  | _ => none

/-- `config.get("mcpServers", {}).get(server_name)` and the `if not server_config` guard -/
def serverConfig (v : J) (n : String) : Except Err J :=
  match v with
  | .obj top =>
    match (jget top "mcpServers").getD (.obj []) with
    | .obj servers =>
      match jget servers n with
      | some sc => if falsy sc then .error .valueError else .ok sc
      | none => .error .valueError
    | _ => .error .other
  | _ => .error .other

/-- the configured timeout VALUE (the code returns `float(value)`; `float` is Python's) -/
def timeoutOf : Option J → Option J
  | none => none
  | some .null => none
  | some v => some v

/-- `StdioParameters(command=sc["command"], args=sc.get("args", []), env=sc.get("env"))`, timeout -/
def params (sc : J) : Except Err (Params × Option J) :=
  match sc with
  | .obj kv =>
    match jget kv "command" with
    | none => .error .other
    | some c =>
      match asStr c, strList ((jget kv "args").getD (.arr [])), optEnv ((jget kv "env").getD .null) with
      | some cmd, some args, some env => .ok ({ command := cmd, args := args, env := env }, timeoutOf (jget kv "timeout"))
      | _, _, _ => .error .validation
  | _ => .error .other

/-- `load_config(config_path, server_name)` -/
def load (f : File) (n : String) : Except Err (Params × Option J) :=
  match f with
  | .missing => .error .fileNotFound
  | .invalid => .error .jsonDecode
  | .json v =>
    match serverConfig v n with
    | .error e => .error e
    | .ok sc => params sc

/-- `self.server.env or get_default_environment()`: an empty mapping counts as "not given" -/
def envOrDefault (dflt : Env) : Option Env → Env
  | some (kv :: rest) => kv :: rest
  | _ => dflt

/-- `anyio.open_process([command, *args], env=env)` -/
def launchSpec (dflt : Env) (p : Params) : List String × Env :=
  (p.command :: p.args, envOrDefault dflt p.env)

/-- one launched server: what the child sees, and whether an `initialize` request is sent to it -/
structure Launch where
  argv : List String
  env : Env
  handshake : Bool
  deriving DecidableEq, Repr

/-- `StdioClient(params)` (rejects an empty command), spawn, `send_initialize` -/
def connect (dflt : Env) (p : Params) : Except Err Launch :=
  if p.command = "" then .error .valueError
  else .ok { argv := (launchSpec dflt p).1, env := (launchSpec dflt p).2, handshake := true }

def one (dflt : Env) (f : File) (n : String) : Except Err Launch :=
  match load f n with
  | .error e => .error e
  | .ok (p, _) => connect dflt p

inductive EntryPoint where
  | loader | cliTest | runner
  deriving DecidableEq, Repr

/-- what an entry point did: the launches, and the exception that reached its caller -/
structure Result where
  launches : List Launch
  raised : Option Err
  deriving DecidableEq, Repr

def toOpt : Except Err Launch → Option Launch
  | .ok l => some l
  | .error _ => none

/-- The three entry points.  `loader` and `cliTest` take one server name (the head of the list);
`cliTest` converts configuration errors into its `False` result; `runner` connects to every
named server in turn, reporting and skipping the ones that fail. -/
def entry (e : EntryPoint) (dflt : Env) (f : File) (names : List String) : Result :=
  match e, names with
  | .runner, ns => { launches := ns.filterMap (fun n => toOpt (one dflt f n)), raised := none }
  | _, [] => { launches := [], raised := none }
  | .loader, n :: _ =>
    match one dflt f n with
    | .ok l => { launches := [l], raised := none }
    | .error err => { launches := [], raised := some err }
  | .cliTest, n :: _ =>
    match one dflt f n with
    | .ok l => { launches := [l], raised := none }
    | .error _ => { launches := [], raised := none }

/-! ## The host process around an entry point

How the HOST process is set up — whether its logging is at DEBUG with a handler that formats every record,
whether its `stdout` can encode what is printed (UTF-8 or not) or is closed at all — is not an input of what is
launched: `entryIn` takes it and ignores it.  (That the real code ignores it too is what the correspondence run
with DEBUG logging, credential-looking environment names and ascii / cp1252 / closed stdout decides.) -/

structure HostProc where
  debugLogging : Bool
  stdoutEncodesAll : Bool
  stdoutOpen : Bool
  deriving DecidableEq, Repr

def entryIn (_h : HostProc) (e : EntryPoint) (dflt : Env) (f : File) (names : List String) : Result :=
  entry e dflt f names

/-! ## Which file is executed

`anyio.open_process([command, *args], env=env)` ends in `execvpe`-like semantics: a command that
contains a `/` is executed as it stands; a bare name is looked up on the `PATH` **of the
environment given to the child** (`os.get_exec_path(env)`: `env["PATH"]`, or the system default
when the child's environment has no `PATH`) — never on the host process's own `PATH`, except
through the library default environment when no `env` is configured.  `files` is the set of
executable files that exist (an OS fact supplied by the harness). -/

def defPath : String := "/bin:/usr/bin"

def pathOf (env : Env) : String := (env.lookup "PATH").getD defPath

/-- split on `:` (own structural definition, so that concrete instances reduce in the kernel) -/
def splitColon : List Char → List Char → List String
  | [], cur => [String.ofList cur.reverse]
  | c :: cs, cur => if c = ':' then String.ofList cur.reverse :: splitColon cs [] else splitColon cs (c :: cur)

def pathDirs (env : Env) : List String := splitColon (pathOf env).toList []

/-- the command has a directory part -/
def isPath (cmd : String) : Bool := cmd.toList.contains '/'

def resolve (files : List String) (env : Env) (cmd : String) : Option String :=
  if isPath cmd then (if files.contains cmd then some cmd else none)     -- a path is executed as it stands, if it exists
  else ((pathDirs env).map (fun d => d ++ "/" ++ cmd)).find? (fun f => files.contains f)

/-- the launch as the kernel performs it: `argv[0]` replaced by the file that is executed;
`none` when no such file exists in the child's environment (the spawn fails) -/
def resolveLaunch (files : List String) (l : Launch) : Option Launch :=
  match l.argv with
  | [] => none
  | cmd :: args => (resolve files l.env cmd).map (fun exe => { l with argv := exe :: args })

/-- the entry points, down to the executed file.  A failed spawn launches nothing; the loader's
caller sees it as an exception, the other two report and carry on. -/
def entryOn (files : List String) (e : EntryPoint) (dflt : Env) (f : File) (names : List String) : Result :=
  let r := entry e dflt f names
  let ls := r.launches.filterMap (resolveLaunch files)
  { launches := ls,
    raised := if e = .loader ∧ ls.length < r.launches.length then some .launchFailed else r.raised }

end Verif.Model.Config
