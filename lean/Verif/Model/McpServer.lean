import Verif.Model.Json
import Verif.Model.Dispatch

/-! # Content-level model of `MCPServer` (`server/server.py`) — C08, second layer

`Verif.Model.Dispatch` abstracts the library's own handlers to "returns / raises / nonsense".
Here their CONTENT is inside the model: the two registries (Python dicts: insertion-ordered,
re-registration replaces in place), `tools/list`, `tools/call` (argument passing, the application
handler's run, `_format_content`), `resources/list`, `resources/read`, `ping`, `initialize`, and a
log of the application handlers that actually ran.  Results are JSON values (`Verif.Model.Json`).

Opaque, on purpose: how a dict result is rendered (`json.dumps(result, indent=2)`: a parameter
`render`, `none` when the value cannot be serialised) and the text `str(x)` of an arbitrary Python
object (`PyVal.other text`; `PyVal.unprintable` when `str` raises). -/
namespace Verif.Model.McpServer
open Verif.Model.Json (Json)
open Verif.Model.Dispatch (Id Key)

/-- JSON string / member name from a Lean string -/
def js (s : String) : Json := .str s.toList
def mem (k : String) (v : Json) : List Char × Json := (k.toList, v)

/-- what an application handler hands back, by the classes `_format_content` tells apart -/
inductive PyVal where
  | str (s : String)
  /-- a dict; its text is `render j` -/
  | dict (j : Json)
  | list (xs : List PyVal)
  /-- anything else; `text` is its `str()` -/
  | other (text : String)
  /-- anything whose `str()` raises -/
  | unprintable

def textBlock (t : String) : Json := .obj [mem "type" (js "text"), mem "text" (js t)]

/-- `_format_content` (`none` = it raised) -/
def fmt (render : Json → Option String) : PyVal → Option (List Json)
  | .str s => some [textBlock s]
  | .dict j => (render j).map (fun t => [textBlock t])
  | .list xs => fmtList render xs
  | .other t => some [textBlock t]
  | .unprintable => none
where
  fmtList (render : Json → Option String) : List PyVal → Option (List Json)
    | [] => some []
    | x :: xs =>
      match fmt render x, fmtList render xs with
      | some a, some b => some (a ++ b)
      | _, _ => none

/-- how running an application handler ends -/
inductive Outcome where
  | returns (v : PyVal)
  | raises

/-- calling `handler(**arguments)`: the arguments may not fit the signature (then the body never runs) -/
inductive Bound where
  | ran (o : Outcome)
  | notBound

abbrev Kwargs := List (String × Json)

structure Tool where
  fn : Kwargs → Bound
  schema : Json
  description : String

/-- how reading a resource ends: the text `str(content)`, or a failure (the handler raised, is not
awaitable, or its value has no text) -/
inductive ROutcome where
  | text (t : String)
  | fails

structure Resource where
  fn : ROutcome
  name : String
  description : String
  mimeType : String

/-- an application handler that ran -/
inductive Call where
  | tool (name : String) (kwargs : Kwargs)
  | resource (uri : String)

/-- a Python dict with string keys: insertion-ordered; assignment replaces in place or appends -/
abbrev Reg (α : Type) := List (String × α)

def rget {α : Type} : Reg α → String → Option α
  | [], _ => none
  | (k, v) :: t, n => if k = n then some v else rget t n

def rput {α : Type} : Reg α → String → α → Reg α
  | [], n, a => [(n, a)]
  | (k, v) :: t, n, a => if k = n then (k, a) :: t else (k, v) :: rput t n a

def rkeys {α : Type} (r : Reg α) : List String := r.map Prod.fst

structure Srv where
  /-- `server_info.model_dump()` -/
  info : Json
  /-- `capabilities.model_dump(exclude_none=True)`: fixed at construction -/
  caps : Json
  tools : Reg Tool
  resources : Reg Resource
  /-- application handlers run so far, oldest first -/
  log : List Call

/-- `register_tool(name, handler, schema, description)` -/
def registerTool (s : Srv) (name : String) (t : Tool) : Srv := { s with tools := rput s.tools name t }

/-- `uri.split("/")[-1]` -/
def lastSegment (uri : String) : String :=
  String.ofList ((uri.toList.reverse.takeWhile (fun c => c != '/')).reverse)

/-- `register_resource(uri, handler, name="", description="", mime_type="text/plain")`:
an empty name becomes the last path segment of the uri -/
def registerResource (s : Srv) (uri : String) (r : Resource) : Srv :=
  { s with resources := rput s.resources uri { r with name := if r.name = "" then lastSegment uri else r.name } }

/-- the `arguments` member as `params.get("arguments", {})` hands it to `**` -/
inductive ArgsV where
  | absent
  | obj (kvs : Kwargs)
  /-- JSON null, array or scalar: `handler(**x)` raises before anything runs -/
  | notMapping

def ArgsV.kwargs : ArgsV → Option Kwargs
  | .absent => some []
  | .obj kvs => some kvs
  | .notMapping => none

/-- what a library handler does: a result value, an error response with a code, or an exception
that escapes to the dispatcher (which answers -32603) -/
inductive HRes where
  | result (v : Json)
  | error (code : Int)
  | raised

def toolEntry (p : String × Tool) : Json :=
  .obj [mem "name" (js p.1), mem "description" (js p.2.description), mem "inputSchema" p.2.schema]

def resourceEntry (p : String × Resource) : Json :=
  .obj [mem "uri" (js p.1), mem "name" (js p.2.name), mem "description" (js p.2.description),
        mem "mimeType" (js p.2.mimeType)]

def toolsList (s : Srv) : Json := .obj [mem "tools" (.arr (s.tools.map toolEntry))]
def resourcesList (s : Srv) : Json := .obj [mem "resources" (.arr (s.resources.map resourceEntry))]

/-- `_handle_tools_call` -/
def toolsCall (render : Json → Option String) (s : Srv) (name : Key) (args : ArgsV) : HRes × Srv :=
  match name with
  | .unhashable => (.raised, s)
  | .absent => (.error (-32602), s)
  | .scalar => (.error (-32602), s)
  | .str n =>
    match rget s.tools n with
    | none => (.error (-32602), s)
    | some t =>
      match args.kwargs with
      | none => (.error (-32603), s)
      | some kv =>
        match t.fn kv with
        | .notBound => (.error (-32603), s)
        | .ran o =>
          let s' := { s with log := s.log ++ [.tool n kv] }
          match o with
          | .raises => (.error (-32603), s')
          | .returns v =>
            match fmt render v with
            | some c => (.result (.obj [mem "content" (.arr c)]), s')
            | none => (.error (-32603), s')

/-- `_handle_resources_read` -/
def resourcesRead (s : Srv) (uri : Key) : HRes × Srv :=
  match uri with
  | .unhashable => (.raised, s)
  | .absent => (.error (-32602), s)
  | .scalar => (.error (-32602), s)
  | .str u =>
    match rget s.resources u with
    | none => (.error (-32602), s)
    | some r =>
      let s' := { s with log := s.log ++ [.resource u] }
      match r.fn with
      | .fails => (.error (-32603), s')
      | .text t =>
        (.result (.obj [mem "contents" (.arr [.obj [mem "uri" (js u), mem "mimeType" (js r.mimeType),
                                                      mem "text" (js t)]])]), s')

structure Req where
  id : Option Id
  method : String
  name : Key := .absent
  uri : Key := .absent
  args : ArgsV := .absent
  /-- `params.protocolVersion`, if any (initialize) -/
  requested : Option Json := none

structure Cfg where
  render : Json → Option String
  /-- requested version ↦ answered version (C04's subject) -/
  answer : Option Json → Json

/-- the library's handler for a built-in method (`none`: no such method) -/
def builtin (cfg : Cfg) (s : Srv) (r : Req) : Option (HRes × Srv) :=
  if r.method = "ping" then some (.result (.obj []), s)
  else if r.method = "initialize" then
    some (.result (.obj [mem "protocolVersion" (cfg.answer r.requested), mem "serverInfo" s.info,
                         mem "capabilities" s.caps]), s)
  else if r.method = "tools/list" then some (.result (toolsList s), s)
  else if r.method = "tools/call" then some (toolsCall cfg.render s r.name r.args)
  else if r.method = "resources/list" then some (.result (resourcesList s), s)
  else if r.method = "resources/read" then some (resourcesRead s r.uri)
  else none

inductive CResp where
  | result (id : Id) (v : Json)
  | error (id : Id) (code : Int)

/-- one message through the server: the response (none for a notification) and the server afterwards.
The handler runs whether or not the message has an id; only the response is withheld. -/
def serve (cfg : Cfg) (s : Srv) (r : Req) : Option CResp × Srv :=
  if r.method = "" then (r.id.map (fun i => .error i (-32600)), s)
  else if r.method = "notifications/initialized" then (r.id.map (fun i => .result i (.obj [])), s)
  else
    match builtin cfg s r with
    | none => (r.id.map (fun i => .error i (-32601)), s)
    | some (h, s') =>
      (r.id.map (fun i =>
        match h with
        | .result v => .result i v
        | .error c => .error i c
        | .raised => .error i (-32603)), s')

def serveAll (cfg : Cfg) (s : Srv) : List Req → List (Option CResp) × Srv
  | [] => ([], s)
  | r :: rest =>
    let a := serve cfg s r
    let b := serveAll cfg a.2 rest
    (a.1 :: b.1, b.2)

/-- names in order of first occurrence -/
def firsts (l : List String) : List String :=
  l.foldl (fun acc n => if n ∈ acc then acc else acc ++ [n]) []

end Verif.Model.McpServer
