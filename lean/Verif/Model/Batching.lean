import Verif.Gen.Versions

/-! # Model of the batching decision (`protocol/features/batching.py`, `types/versioning.py`)

`supportsBatching` is the function `supports_batching`: its guards (falsy version, number of
`-`-separated parts, `int()` of each part, the `except` clause) are modelled by hand here; the
if/elif chain after the three `int()` conversions is `Verif.Gen.Versions.supportsBatchingGen`,
REGENERATED from the source on every run.

Strings are `List Char`.  The model's domain is ASCII text (Python's `int()` and `\d` also accept
non-ASCII decimal digits; the property's quantifier is over ASCII digits, DESIGN.md §8).
-/
namespace Verif.Model.Batching
open Verif.Gen.Versions

/-- Python `s.split(sep)` for a one-character separator: never empty. -/
def splitOn (sep : Char) : List Char → List (List Char)
  | [] => [[]]
  | c :: cs =>
    if c = sep then [] :: splitOn sep cs
    else match splitOn sep cs with
      | [] => [[c]]            -- unreachable: `splitOn` never returns `[]`
      | p :: ps => (c :: p) :: ps

/-- whitespace stripped by `int()` on an ASCII string (C `isspace`) -/
def isCSpace (c : Char) : Bool :=
  c = ' ' || c = '\t' || c = '\n' || c = '\r' || c = '\x0b' || c = '\x0c'

def dropSpace : List Char → List Char
  | [] => []
  | c :: cs => if isCSpace c then dropSpace cs else c :: cs

def stripC (s : List Char) : List Char := (dropSpace (dropSpace s).reverse).reverse

def digitVal (c : Char) : Option Nat :=
  if 48 ≤ c.toNat ∧ c.toNat ≤ 57 then some (c.toNat - 48) else none

/-- decimal digits with single underscores allowed *between* digits (PEP 515), as `int()` reads
them.  `acc` = value so far, `prevDigit` = the previous character was a digit. -/
def readDigits (acc : Nat) (prevDigit : Bool) : List Char → Option Nat
  | [] => if prevDigit then some acc else none
  | c :: cs =>
    if c = '_' then (if prevDigit then readDigits acc false cs else none)
    else match digitVal c with
      | some d => readDigits (10 * acc + d) true cs
      | none => none

/-- Python `int(s)` for an ASCII string: `none` = `ValueError`. -/
def pyInt (s : List Char) : Option Int :=
  match stripC s with
  | '-' :: r => (readDigits 0 false r).map (fun n => -(n : Int))
  | '+' :: r => (readDigits 0 false r).map (fun n => (n : Int))
  | r => (readDigits 0 false r).map (fun n => (n : Int))

/-- `supports_batching(protocol_version)`; `none` = `None`. -/
def supportsBatching (v : Option (List Char)) : Bool :=
  match v with
  | none => true
  | some [] => true
  | some s =>
    match splitOn '-' s with
    | [a, b, c] =>
      match pyInt a, pyInt b, pyInt c with
      | some y, some m, some d => supportsBatchingGen y m d
      | _, _, _ => true          -- ValueError caught: assume batching
    | _ => true                  -- not three parts: assume batching

/-! ## The library's own version ordering (`ProtocolVersion.compare`) -/

def isAsciiDigit (c : Char) : Bool := 48 ≤ c.toNat && c.toNat ≤ 57

/-- `validate_format`: `re.match(r"^\d{4}-\d{2}-\d{2}$", v)` on ASCII text (`$` also matches
before one trailing newline). -/
def validFormat (s : List Char) : Bool :=
  let core (a b c d s1 e f s2 g h : Char) : Bool :=
    isAsciiDigit a && isAsciiDigit b && isAsciiDigit c && isAsciiDigit d && s1 = '-' &&
    isAsciiDigit e && isAsciiDigit f && s2 = '-' && isAsciiDigit g && isAsciiDigit h
  match s with
  | [a, b, c, d, s1, e, f, s2, g, h] => core a b c d s1 e f s2 g h
  | [a, b, c, d, s1, e, f, s2, g, h, nl] => core a b c d s1 e f s2 g h && nl = '\n'
  | _ => false

/-- Python `<` on `str`: lexicographic on code points. -/
def strLt : List Char → List Char → Bool
  | [], [] => false
  | [], _ :: _ => true
  | _ :: _, [] => false
  | a :: as, b :: bs =>
    if a.toNat < b.toNat then true else if b.toNat < a.toNat then false else strLt as bs

/-- `ProtocolVersion.compare(v1, v2)`; `.error ()` = `ValueError`. -/
def pvCompare (v1 v2 : List Char) : Except Unit Int :=
  if v1 = v2 then .ok 0
  else if !validFormat v1 then .error ()
  else if !validFormat v2 then .error ()
  else .ok (if strLt v2 v1 then 1 else -1)

/-! ## Vocabulary of the property theorems -/

/-- the cutoff version string -/
def cutoff : List Char := "2025-06-18".toList

/-- the cutoff as eight decimal digits -/
def cutoffDigits : List Nat := [2, 0, 2, 5, 0, 6, 1, 8]

/-- lexicographic order on digit lists (= date order on `dddd-dd-dd`) -/
def lexLt : List Nat → List Nat → Bool
  | [], [] => false
  | [], _ :: _ => true
  | _ :: _, [] => false
  | a :: as, b :: bs => if a < b then true else if b < a then false else lexLt as bs

def digitChar (n : Nat) : Char := Char.ofNat (48 + n)

/-- the padded format `dddd-dd-dd` of eight digits -/
def fmt (a b c d e f g h : Nat) : List Char :=
  [digitChar a, digitChar b, digitChar c, digitChar d, '-', digitChar e, digitChar f, '-',
   digitChar g, digitChar h]

/-- date order on (year, month, day) triples of integers -/
def dateLt (y1 m1 d1 y2 m2 d2 : Int) : Prop :=
  y1 < y2 ∨ (y1 = y2 ∧ (m1 < m2 ∨ (m1 = m2 ∧ d1 < d2)))

def dateLe (y1 m1 d1 y2 m2 d2 : Int) : Prop :=
  dateLt y1 m1 d1 y2 m2 d2 ∨ (y1 = y2 ∧ m1 = m2 ∧ d1 = d2)

/-- `BatchProcessor`: the mode after a sequence of `update_protocol_version` calls is the
decision for the last version set (initially: no version). -/
def modeAfter (init : Option (List Char)) (sets : List (Option (List Char))) : Bool :=
  supportsBatching (sets.foldl (fun _ v => v) init)

end Verif.Model.Batching
