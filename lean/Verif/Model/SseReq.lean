/-! # Model of the SSE transport (`src/chuk_mcp/transports/sse/transport.py`)

Four layers, each a small total function:

1. `resolveEndpoint` — the URL forms `_handle_endpoint_event` accepts.
2. the incremental event-stream parser of `_process_sse_stream`
   (`buffer += chunk; while "\n" in buffer: line, buffer = buffer.split("\n", 1)`; per line:
   comment / `field:value` with an optional space after the colon, `data` lines collected and
   joined with LF, dispatch at the blank line that ends the event) — `feed`, `runChunks`.
3. `enter` — the readiness wait of `__aenter__` over a timed establishment trace (repaired
   behaviour: yield only if an endpoint was announced, else raise; never later than the timeout).
4. the pending-future protocol of `_send_message_via_http` / `_handle_message_event` as a
   small-step machine with two actors (the sender task and the event-stream task) — `step`, `run`,
   and the schedules of one request for every mode and both orders — `sched`.

Times are natural numbers of ticks.  Text is `List Char` (the stream after httpx's incremental
UTF-8 decoding).  JSON decoding and `JSONRPCMessage.model_validate` are a parameter
(`dec : Str → Option (Msg α)`): everything is proved for every decoder.
-/
namespace Verif.Model.SseReq

abbrev Str := List Char

/-! ## 1. strings and endpoint resolution -/

/-- Python `str.isspace` for one character (what `str.strip()` removes) -/
def isWs (c : Char) : Bool :=
  let n := c.toNat
  (9 ≤ n && n ≤ 13) || (28 ≤ n && n ≤ 32) || n == 0x85 || n == 0xA0 || n == 0x1680
    || (0x2000 ≤ n && n ≤ 0x200A) || n == 0x2028 || n == 0x2029 || n == 0x202F || n == 0x205F
    || n == 0x3000

def rdrop (p : Char → Bool) (s : Str) : Str := (s.reverse.dropWhile p).reverse

/-- `s.strip()` -/
def strip (s : Str) : Str := rdrop isWs (s.dropWhile isWs)

/-- `line.rstrip("\r")` -/
def rstripCR (s : Str) : Str := rdrop (· == '\r') s

/-- `url.rstrip("/")` -/
def normBase (s : Str) : Str := rdrop (· == '/') s

/-- `s.startswith(p)`; returns the rest -/
def stripPrefix : Str → Str → Option Str
  | [], s => some s
  | _ :: _, [] => none
  | p :: ps, c :: cs => if p = c then stripPrefix ps cs else none

def startsWith (p s : Str) : Bool := (stripPrefix p s).isSome

/-- `pat in s` -/
def hasSub (pat : Str) : Str → Bool
  | [] => pat.isEmpty
  | c :: cs => startsWith pat (c :: cs) || hasSub pat cs

/-! literals of the source, as character lists -/
def sHttp : Str := ['h','t','t','p']
def sMessages : Str := ['/','m','e','s','s','a','g','e','s','/']
def sMessagesQ : Str := ['/','m','e','s','s','a','g','e','s','/','?']
def sEvent : Str := ['e','v','e','n','t']
def sData : Str := ['d','a','t','a']
def sEventPfx : Str := ['e','v','e','n','t',':',' ']
def sDataPfx : Str := ['d','a','t','a',':',' ']
def sEndpoint : Str := ['e','n','d','p','o','i','n','t']
def sMessage : Str := ['m','e','s','s','a','g','e']
def sKeepalive : Str := ['k','e','e','p','a','l','i','v','e']
def sMcp : Str := ['/','m','c','p']
def sJsonrpc : Str := ['\"','j','s','o','n','r','p','c','\"']

/-- `_handle_endpoint_event`: the message URL built from the announced data.
`base` is `parameters.url.rstrip("/")`. -/
def resolveEndpoint (base data : Str) : Str :=
  let p := strip data
  if startsWith ['/'] p then base ++ p
  else if p.contains '=' && !startsWith sHttp p then
    if hasSub sMessages base then base ++ '?' :: p
    else base ++ sMessagesQ ++ p
  else p

/-! ## 2. event-stream parser -/

/-- what the parser hands to the transport -/
inductive Act where
  /-- `_handle_endpoint_event(data)` -/
  | endpoint (data : Str)
  /-- `_handle_message_event(data)` -/
  | message (data : Str)
  deriving DecidableEq, Repr

/-- the event under construction: `current_event` and `event_data` -/
structure Acc where
  ty : Option Str
  data : List Str
  deriving DecidableEq, Repr

def Acc.empty : Acc := { ty := none, data := [] }

/-- parser state between lines: the event under construction (`none` = nothing collected since
the last blank line), and whether `self._message_url` is set -/
structure LSt where
  cur : Option Acc
  haveUrl : Bool
  deriving DecidableEq, Repr

/-- `line.partition(":")`: text before the first colon, text after it (no colon: the whole line
is the field name) -/
def partitionColon : Str → Str × Str
  | [] => ([], [])
  | c :: cs => if c = ':' then ([], cs) else let r := partitionColon cs; (c :: r.1, r.2)

/-- the optional single space after the colon -/
def dropOneSpace : Str → Str
  | ' ' :: cs => cs
  | cs => cs

/-- `"\n".join(lines)` -/
def joinNL : List Str → Str
  | [] => []
  | [l] => l
  | l :: ls => l ++ '\n' :: joinNL ls

/-- `_dispatch_sse_event` at the blank line that ends an event (nothing is dispatched for an
event without data) -/
def dispatch (st : LSt) : LSt × List Act :=
  match st.cur with
  | none => (st, [])
  | some a =>
    let st' : LSt := { st with cur := none }
    if a.data = [] then (st', [])
    else
      let d := strip (joinNL a.data)
      if a.ty = some sEndpoint then
        ({ st' with haveUrl := decide (strip d ≠ []) }, [.endpoint d])
      else if a.ty = some sMessage then (st', [.message d])
      else if a.ty = some sKeepalive then (st', [])
      else if !st.haveUrl && (hasSub sMessages d || hasSub sMcp d) then
        ({ st' with haveUrl := decide (strip d ≠ []) }, [.endpoint d])
      else if startsWith ['{'] d && hasSub sJsonrpc d then (st', [.message d])
      else (st', [])

/-- one complete line (without its LF): blank = end of event, `:…` = comment, else
`field:value` with an optional single space after the colon -/
def stepLine (st : LSt) (raw : Str) : LSt × List Act :=
  let line := rstripCR raw
  if line = [] then dispatch st
  else if line.head? = some ':' then (st, [])
  else
    let p := partitionColon line
    let v := dropOneSpace p.2
    let a := st.cur.getD Acc.empty
    if p.1 = sEvent then ({ st with cur := some { a with ty := some (strip v) } }, [])
    else if p.1 = sData then ({ st with cur := some { a with data := a.data ++ [v] } }, [])
    else (st, [])

def stepLines (st : LSt) : List Str → LSt × List Act
  | [] => (st, [])
  | l :: ls =>
    let r := stepLine st l
    let r' := stepLines r.1 ls
    (r'.1, r.2 ++ r'.2)

/-- `buffer.split("\n")` with the last fragment kept apart: (complete lines, tail) -/
def splitLF : Str → List Str × Str
  | [] => ([], [])
  | x :: xs =>
    let r := splitLF xs
    if x = '\n' then ([] :: r.1, r.2)
    else
      match r.1 with
      | [] => ([], x :: r.2)
      | l :: ls => ((x :: l) :: ls, r.2)

structure PSt where
  buf : Str
  ls : LSt
  deriving DecidableEq, Repr

def PSt.init : PSt := { buf := [], ls := { cur := none, haveUrl := false } }

/-- one iteration of `async for chunk in aiter_text()` -/
def feed (st : PSt) (chunk : Str) : PSt × List Act :=
  if chunk = [] then (st, [])
  else
    let s := splitLF (st.buf ++ chunk)
    let r := stepLines st.ls s.1
    ({ buf := s.2, ls := r.1 }, r.2)

def runChunks (st : PSt) : List Str → PSt × List Act
  | [] => (st, [])
  | c :: cs =>
    let r := feed st c
    let r' := runChunks r.1 cs
    (r'.1, r.2 ++ r'.2)

/-- the same with arrival ticks: every action carries the tick of the chunk that completed its line -/
def runTimed (st : PSt) : List (Nat × Str) → List (Nat × Act)
  | [] => []
  | (t, c) :: cs =>
    let r := feed st c
    r.2.map (fun a => (t, a)) ++ runTimed r.1 cs

/-! ### the server side of the grammar: how a conformant server renders typed events -/

/-- what a server writes on the event stream -/
inductive Ev where
  | endpoint (d : Str)
  | message (d : Str)
  | keepalive (d : Str)
  /-- a comment line `:text` -/
  | comment (c : Str)
  deriving DecidableEq, Repr

/-- the lines of one event; `crlf` = lines end in CRLF instead of LF -/
def evLines (e : Ev) (crlf : Bool) : List Str :=
  let cr : Str := if crlf then ['\r'] else []
  match e with
  | .endpoint d => [sEventPfx ++ sEndpoint ++ cr, sDataPfx ++ d ++ cr, cr]
  | .message d => [sEventPfx ++ sMessage ++ cr, sDataPfx ++ d ++ cr, cr]
  | .keepalive d => [sEventPfx ++ sKeepalive ++ cr, sDataPfx ++ d ++ cr, cr]
  | .comment c => [':' :: c ++ cr]

/-- every line followed by a line feed -/
def joinLF : List Str → Str
  | [] => []
  | l :: ls => l ++ '\n' :: joinLF ls

def renderText (evs : List (Ev × Bool)) : Str := joinLF (evs.flatMap (fun p => evLines p.1 p.2))

/-- the action the transport must see for an event -/
def Ev.act : Ev → Option Act
  | .endpoint d => some (.endpoint d)
  | .message d => some (.message d)
  | .keepalive _ => none
  | .comment _ => none

/-- text without a line feed and without leading / trailing white space (compact JSON, URLs) -/
def CleanText (d : Str) : Prop :=
  '\n' ∉ d ∧ (∀ c, d.head? = some c → isWs c = false) ∧ (∀ c, d.getLast? = some c → isWs c = false)

def Ev.Clean : Ev → Prop
  | .endpoint d => CleanText d
  | .message d => CleanText d
  | .keepalive d => CleanText d
  | .comment c => '\n' ∉ c

/-! ### every conformant rendering: space after the colon or not, several data lines -/

structure Style where
  crlf : Bool
  /-- `field: value` (true) or `field:value` -/
  space : Bool
  deriving DecidableEq, Repr

def Style.cr (s : Style) : Str := if s.crlf then ['\r'] else []

def fieldLine (name v : Str) (s : Style) : Str := name ++ ':' :: (if s.space then ' ' :: v else v) ++ s.cr

inductive EvX where
  | endpoint (d : Str)
  /-- a message whose data is spread over any number of `data` lines -/
  | message (ds : List Str)
  | keepalive (d : Str)
  | comment (c : Str)
  deriving DecidableEq, Repr

def evLinesX (e : EvX) (s : Style) : List Str :=
  match e with
  | .endpoint d => [fieldLine sEvent sEndpoint s, fieldLine sData d s, s.cr]
  | .message ds => fieldLine sEvent sMessage s :: (ds.map (fun d => fieldLine sData d s) ++ [s.cr])
  | .keepalive d => [fieldLine sEvent sKeepalive s, fieldLine sData d s, s.cr]
  | .comment c => [':' :: c ++ s.cr]

def renderTextX (evs : List (EvX × Style)) : Str := joinLF (evs.flatMap (fun p => evLinesX p.1 p.2))

/-- the action the transport must see: the data lines joined with LF, stripped -/
def EvX.act : EvX → Option Act
  | .endpoint d => some (.endpoint (strip d))
  | .message ds => if ds = [] then none else some (.message (strip (joinNL ds)))
  | .keepalive _ => none
  | .comment _ => none

/-- a value that can be written on one line in this style: no line feed, no carriage return at
its end, and no leading space when the optional space is left out -/
def OkLine (v : Str) (s : Style) : Prop :=
  '\n' ∉ v ∧ (∀ c, v.getLast? = some c → c ≠ '\r') ∧ (s.space = true ∨ v.head? ≠ some ' ')

def EvX.Ok (e : EvX) (s : Style) : Prop :=
  match e with
  | .endpoint d => OkLine d s
  | .message ds => ∀ d ∈ ds, OkLine d s
  | .keepalive d => OkLine d s
  | .comment c => '\n' ∉ c

/-! ## 3. establishment -/

inductive Conn where
  /-- the GET answered 200 at tick `c` -/
  | ok (c : Nat)
  /-- the GET answered another status at tick `c` -/
  | status (c : Nat) (code : Nat)
  /-- the connection attempt failed at tick `c` -/
  | error (c : Nat)
  /-- nothing ever comes back -/
  | hang
  deriving DecidableEq, Repr

structure EstTrace where
  /-- `parameters.timeout` -/
  T : Nat
  /-- cap on the connection attempt (`min(timeout, 15.0)`) -/
  cap : Nat
  conn : Conn
  /-- parser actions with their ticks, in stream order -/
  acts : List (Nat × Act)
  /-- the server ends the stream at this tick -/
  close : Option Nat
  deriving Repr

inductive Outcome where
  | yielded (t : Nat) (url : Str)
  | raised (t : Nat)
  deriving DecidableEq, Repr

def Outcome.time : Outcome → Nat
  | .yielded t _ => t
  | .raised t => t

def firstEndpoint : List (Nat × Act) → Option (Nat × Str)
  | [] => none
  | (t, .endpoint d) :: _ => some (t, d)
  | (_, .message _) :: rest => firstEndpoint rest

/-- the stream ended (at `e`) before tick `a` -/
def closedBefore (close : Option Nat) (a : Nat) : Option Nat :=
  match close with
  | some e => if e < a then some e else none
  | none => none

/-- `__aenter__`: the first of {connection failure, end of stream, endpoint announcement,
timeout} decides.  An announcement that resolves to an empty URL does not count as one. -/
def enter (base : Str) (tr : EstTrace) : Outcome :=
  let lim := min tr.T tr.cap
  match tr.conn with
  | .hang => .raised lim
  | .status c _ => .raised (min c lim)
  | .error c => .raised (min c lim)
  | .ok c =>
    if lim ≤ c then .raised lim
    else
      match firstEndpoint tr.acts with
      | some (a, d) =>
        match closedBefore tr.close a with
        | some e => .raised (min e tr.T)
        | none =>
          if a < tr.T then
            (if resolveEndpoint base d = [] then .raised a else .yielded a (resolveEndpoint base d))
          else .raised tr.T
      | none =>
        match tr.close with
        | some e => .raised (min e tr.T)
        | none => .raised tr.T

/-! ## 4. pending-future protocol -/

/-- a decoded message event / POST body: `key` = `str(id)` when an id is present, `ok` = accepted
by `JSONRPCMessage.model_validate`, `body` opaque -/
structure Msg (α : Type) where
  key : Option Str
  ok : Bool
  body : α
  deriving DecidableEq, Repr

/-- what is put on the read stream -/
inductive Out (α : Type) where
  | routed (m : Msg α)
  /-- synthesised `-32000 Request timeout` with the request's id -/
  | timeoutErr (k : Str)
  /-- synthesised `-32603` with the request's id -/
  | failErr (k : Str)
  deriving DecidableEq, Repr

def Out.key {α : Type} : Out α → Option Str
  | .routed m => m.key
  | .timeoutErr k => some k
  | .failErr k => some k

inductive Fut (α : Type) where
  | waiting
  | resolved (m : Msg α)
  | cancelled
  deriving DecidableEq, Repr

inductive Phase where
  /-- no request in flight -/
  | idle
  /-- future registered, POST not completed -/
  | posting
  /-- 202 received, waiting on the future -/
  | awaiting
  deriving DecidableEq, Repr

structure St (α : Type) where
  phase : Phase
  /-- `str(id)` of the request in flight -/
  key : Str
  /-- the key is in `_pending_requests` -/
  inDict : Bool
  fut : Fut α
  /-- read stream so far -/
  out : List (Out α)
  deriving Repr

def St.init {α : Type} : St α := { phase := .idle, key := [], inDict := false, fut := .waiting, out := [] }

/-- `_route_incoming_message`: messages the validator rejects are dropped -/
def route {α : Type} (st : St α) (m : Msg α) : St α :=
  if m.ok then { st with out := st.out ++ [.routed m] } else st

def emit {α : Type} (st : St α) (o : Out α) : St α := { st with out := st.out ++ [o] }

/-- the sender leaves `_send_message_via_http` (its `finally` pops the key) -/
def finish {α : Type} (st : St α) : St α := { st with phase := .idle, inDict := false }

/-- POST completion as the sender sees it -/
inductive Post (α : Type) where
  /-- 200; `body = none`: `response.json()` raises -/
  | ok200 (body : Option (Msg α))
  /-- 202 -/
  | accepted
  /-- any other status; `body = none`: not JSON -/
  | other (body : Option (Msg α))
  /-- `post()` raised -/
  | exc
  deriving Repr

inductive Action (α : Type) where
  /-- sender: future created and stored under the key, POST goes out -/
  | register (k : Str)
  /-- event-stream task: `_handle_message_event` on a decoded message -/
  | event (m : Msg α)
  /-- sender: the POST completed -/
  | post (p : Post α)
  /-- sender: `wait_for(future, timeout)` expired -/
  | timeout
  deriving Repr

/-- a POST body of another status counts as the answer only if it is a message the validator
accepts that bears the request's id (repaired behaviour; the pinned code routes any JSON body) -/
def answers {α : Type} (k : Str) (b : Msg α) : Bool := b.ok && decide (b.key = some k)

def step {α : Type} (st : St α) : Action α → St α
  | .register k => { st with phase := .posting, key := k, inDict := true, fut := .waiting }
  | .event m =>
    if st.inDict && decide (m.key = some st.key) then
      -- pop the future, resolve it unless done; the message is not routed by this task
      let st' := { st with inDict := false,
                           fut := (match st.fut with | .waiting => .resolved m | f => f) }
      match st.phase, st.fut with
      | .awaiting, .waiting => finish (route st' m)   -- the sender wakes up and routes it
      | _, _ => st'
    else route st m
  | .post p =>
    match st.phase with
    | .posting =>
      match p with
      | .ok200 (some b) =>
        finish (route { st with fut := (match st.fut with | .waiting => .cancelled | f => f) } b)
      | .ok200 none => finish (emit st (.failErr st.key))
      | .accepted =>
        match st.fut with
        | .resolved m => finish (route st m)
        | .waiting => { st with phase := .awaiting }
        | .cancelled => finish st
      | .other (some b) =>
        if answers st.key b then finish (route st b) else finish (emit st (.failErr st.key))
      | .other none => finish (emit st (.failErr st.key))
      | .exc => finish (emit st (.failErr st.key))
    | _ => st
  | .timeout =>
    match st.phase, st.fut with
    | .awaiting, .waiting => finish (emit st (.timeoutErr st.key))
    | _, _ => st

def run {α : Type} (st : St α) (as : List (Action α)) : St α := as.foldl step st

/-- the ways one request can go -/
inductive Mode (α : Type) where
  /-- 200 with the answer in the body -/
  | body (b : Msg α)
  /-- 200 whose body cannot be decoded -/
  | bodyUnreadable
  /-- the answer arrives on the event stream before the 202 -/
  | evThenAck (m : Msg α)
  /-- 202, then the answer on the event stream -/
  | ackThenEv (m : Msg α)
  /-- 202 and nothing -/
  | silence
  /-- another status, with or without a decodable body -/
  | otherStatus (b : Option (Msg α))
  /-- the POST raises -/
  | exception
  /-- the answer arrives on the event stream first, then the POST completes in ANY way (200 with a
  body, unreadable 200, 202, another status, exception) -/
  | evThenPost (m : Msg α) (p : Post α)
  deriving Repr

/-- what a POST completion alone ends a request with, when the request's future was already
resolved by the event `m` -/
def postTerminal {α : Type} (k : Str) (m : Msg α) : Post α → Out α
  | .ok200 (some b) => .routed b
  | .ok200 none => .failErr k
  | .accepted => .routed m
  | .other (some b) => if answers k b then .routed b else .failErr k
  | .other none => .failErr k
  | .exc => .failErr k

/-- schedule of one request: `bg0` / `bg1` / `bg2` are event-stream messages handled before the
POST is answered / between the two racing steps / afterwards -/
def sched {α : Type} (k : Str) (mode : Mode α) (bg0 bg1 bg2 : List (Msg α)) : List (Action α) :=
  [.register k] ++ bg0.map .event ++
  (match mode with
   | .body b => [.post (.ok200 (some b))]
   | .bodyUnreadable => [.post (.ok200 none)]
   | .evThenAck m => [.event m] ++ bg1.map .event ++ [.post .accepted]
   | .ackThenEv m => [.post .accepted] ++ bg1.map .event ++ [.event m]
   | .silence => [.post .accepted] ++ bg1.map .event ++ [.timeout]
   | .otherStatus b => [.post (.other b)]
   | .exception => [.post .exc]
   | .evThenPost m p => [.event m] ++ bg1.map .event ++ [.post p]) ++ bg2.map .event

/-- the terminal message the request must end with -/
def terminal {α : Type} (k : Str) : Mode α → Out α
  | .body b => .routed b
  | .bodyUnreadable => .failErr k
  | .evThenAck m => .routed m
  | .ackThenEv m => .routed m
  | .silence => .timeoutErr k
  | .otherStatus (some b) => if answers k b then .routed b else .failErr k
  | .otherStatus none => .failErr k
  | .exception => .failErr k
  | .evThenPost m p => postTerminal k m p

/-- the answer carried by the mode (if any) is a well-formed response to this request -/
def Mode.wf {α : Type} (k : Str) : Mode α → Prop
  | .body b => b.ok = true ∧ b.key = some k
  | .evThenAck m => m.ok = true ∧ m.key = some k
  | .ackThenEv m => m.ok = true ∧ m.key = some k
  | .evThenPost m p => (m.ok = true ∧ m.key = some k) ∧
      (match p with
       | .ok200 (some b) => b.ok = true ∧ b.key = some k   -- a 200 body is taken as the answer
       | _ => True)
  | _ => True

/-- no answer can arrive on an ended event stream: the modes that remain -/
def Mode.noEvent {α : Type} : Mode α → Bool
  | .evThenAck _ => false
  | .ackThenEv _ => false
  | .evThenPost _ _ => false
  | _ => true

structure Req (α : Type) where
  key : Str
  mode : Mode α
  bg0 : List (Msg α)
  bg1 : List (Msg α)
  bg2 : List (Msg α)

def Req.actions {α : Type} (r : Req α) : List (Action α) := sched r.key r.mode r.bg0 r.bg1 r.bg2
def Req.bg {α : Type} (r : Req α) : List (Msg α) := r.bg0 ++ r.bg1 ++ r.bg2

/-- requests are served one after the other by `_outgoing_message_handler` -/
def runReqs {α : Type} (st : St α) (rs : List (Req α)) : St α := rs.foldl (fun s r => run s r.actions) st

/-- messages the validator accepts, as read-stream entries -/
def oks {α : Type} (ms : List (Msg α)) : List (Out α) := (ms.filter (·.ok)).map .routed

/-- has this read-stream entry the id `k`? -/
def hasKey {α : Type} (k : Str) (o : Out α) : Bool := decide (o.key = some k)

/-- background messages a request's schedule handles between its two racing steps, as
read-stream entries (only the modes with a 202 have such a gap) -/
def mid {α : Type} (mode : Mode α) (bg1 : List (Msg α)) : List (Out α) :=
  match mode with
  | .evThenAck _ => oks bg1
  | .ackThenEv _ => oks bg1
  | .silence => oks bg1
  | .evThenPost _ _ => oks bg1
  | _ => []

/-- everything the schedule of one request is expected to put on the read stream -/
def reqOut {α : Type} (k : Str) (mode : Mode α) (bg0 bg1 bg2 : List (Msg α)) : List (Out α) :=
  oks bg0 ++ mid mode bg1 ++ [terminal k mode] ++ oks bg2

def Req.out {α : Type} (r : Req α) : List (Out α) := reqOut r.key r.mode r.bg0 r.bg1 r.bg2

/-- the background part of it -/
def Req.bgOut {α : Type} (r : Req α) : List (Out α) := oks r.bg0 ++ mid r.mode r.bg1 ++ oks r.bg2

/-! ## 5. resources -/

inductive H where
  | absent | live | released
  deriving DecidableEq, Repr

/-- what `__aenter__` creates -/
structure Handles where
  sseTask : H
  outTask : H
  streamCtx : H
  incomingSend : H
  outgoingSend : H
  streamClient : H
  sendClient : H
  deriving DecidableEq, Repr

def H.close : H → H
  | .live => .released
  | h => h

/-- `_cleanup` -/
def cleanup (h : Handles) : Handles :=
  { sseTask := h.sseTask.close, outTask := h.outTask.close, streamCtx := h.streamCtx.close,
    incomingSend := h.incomingSend.close, outgoingSend := h.outgoingSend.close,
    streamClient := h.streamClient.close, sendClient := h.sendClient.close }

def Handles.toList (h : Handles) : List H :=
  [h.sseTask, h.outTask, h.streamCtx, h.incomingSend, h.outgoingSend, h.streamClient, h.sendClient]

/-! ## 6. a whole session (what the driver executes) -/

structure SessionObs (α : Type) where
  enter : Outcome
  /-- server messages put on the read stream, in order -/
  srv : List (Msg α)
  /-- per request: the read-stream entries bearing its id -/
  terms : List (List (Out α))

/-- messages of the static event stream that reach the read stream (they are foreign to every
request of the session, so they are routed) -/
def srvDelivered {α : Type} (dec : Str → Option (Msg α)) (acts : List Act) : List (Msg α) :=
  acts.filterMap (fun a => match a with
    | .message d => (match dec d with | some m => if m.ok then some m else none | none => none)
    | .endpoint _ => none)

def session {α : Type} (dec : Str → Option (Msg α)) (url : Str) (T cap : Nat) (conn : Conn)
    (chunks : List (Nat × Str)) (close : Option Nat) (reqs : List (Str × Mode α × List (Msg α))) : SessionObs α :=
  let acts := runTimed PSt.init chunks
  let e := enter (normBase url) { T := T, cap := cap, conn := conn, acts := acts, close := close }
  match e with
  | .raised _ => { enter := e, srv := [], terms := [] }
  | .yielded _ _ =>
    let final := runReqs St.init
      (reqs.map (fun (k, m, late) => ({ key := k, mode := m, bg0 := [], bg1 := [], bg2 := late } : Req α)))
    { enter := e,
      srv := srvDelivered dec (acts.map (·.2)),
      terms := reqs.map (fun (k, _, _) => final.out.filter (fun o => decide (o.key = some k))) }

/-! ## 7. several transports in one process; parameter options -/

/-- one action of the transport number `i` of the process -/
def applyAt {α : Type} : List (St α) → Nat → Action α → List (St α)
  | [], _, _ => []
  | s :: ss, 0, a => step s a :: ss
  | s :: ss, i + 1, a => s :: applyAt ss i a

/-- any interleaving of the actions of several transports, each tagged with its transport -/
def runTagged {α : Type} (sts : List (St α)) (acts : List (Nat × Action α)) : List (St α) :=
  acts.foldl (fun ss p => applyAt ss p.1 p.2) sts

/-- the actions of transport `i` in an interleaving -/
def projActs {α : Type} (i : Nat) (acts : List (Nat × Action α)) : List (Action α) :=
  acts.filterMap (fun p => if p.1 = i then some p.2 else none)

/-- the options of `SSEParameters` that default to off / none -/
structure Options where
  sessionId : Option Str
  bearerToken : Option Str
  headers : Option (List (Str × Str))
  autoReconnect : Bool
  maxReconnect : Int
  reconnectDelay : Int
  keepAlive : Int
  sseEndpoint : Str
  messageBase : Str
  deriving Repr

/-- a session under given options: the options are not an input of establishment, delivery or
release (in particular none of them makes an endpoint known before the server announced one) -/
def sessionWith {α : Type} (_o : Options) (dec : Str → Option (Msg α)) (url : Str) (T cap : Nat) (conn : Conn)
    (chunks : List (Nat × Str)) (close : Option Nat) (reqs : List (Str × Mode α × List (Msg α))) : SessionObs α :=
  session dec url T cap conn chunks close reqs

end Verif.Model.SseReq
