import Verif.Model.SseReq

/-! # Pure decision logic next to the SSE transport

* header construction: `SSEParameters.setup_auth_headers` (parameters.py) and
  `SSETransport._get_headers` (transport.py);
* the session id cut out of the message URL by `_handle_endpoint_event`;
* parameter validation of `SSEParameters` (parameters.py validators);
* `is_sse_url` (sse_client.py);
* the guards of a transport that was never started (`get_streams`, `is_connected`).

Header names and URLs are ASCII in the generators (`str.lower()` is modelled on ASCII letters).
Numbers enter only through their comparison with 0, so they are represented by an `Int` with
the same sign.
-/
namespace Verif.Model.SseUnits
open Verif.Model.SseReq

/-! ## text helpers -/

def lowerC (c : Char) : Char :=
  if 65 ≤ c.toNat ∧ c.toNat ≤ 90 then Char.ofNat (c.toNat + 32) else c

/-- `s.lower()` on ASCII -/
def lower (s : Str) : Str := s.map lowerC

/-! ## headers -/

/-- a `dict[str, str]` in insertion order -/
abbrev Headers := List (Str × Str)

def sAuthLower : Str := ['a','u','t','h','o','r','i','z','a','t','i','o','n']
def sAuthName : Str := ['A','u','t','h','o','r','i','z','a','t','i','o','n']
def sBearer : Str := ['B','e','a','r','e','r',' ']

/-- the Authorization value for a bearer token: never a doubled `Bearer ` prefix -/
def bearerValue (tok : Str) : Str := if startsWith sBearer tok then tok else sBearer ++ tok

/-- a caller header that is the Authorization header (parameters.py: `key.lower() == "authorization"`) -/
def isAuthKey (k : Str) : Bool := lower k == sAuthLower

/-- a caller header that mentions authorization (transport.py: `"authorization" in k.lower()`) -/
def mentionsAuth (k : Str) : Bool := hasSub sAuthLower (lower k)

/-- `SSEParameters.setup_auth_headers`: with a non-empty bearer token, `headers` becomes a dict
and gets an `Authorization` entry unless the caller supplied one -/
def setupAuth (headers : Option Headers) (tok : Option Str) : Option Headers :=
  match tok with
  | none => headers
  | some t =>
    if t = [] then headers
    else
      let h := headers.getD []
      some (if h.any (fun kv => isAuthKey kv.1) then h else h ++ [(sAuthName, bearerValue t)])

/-- `SSETransport._get_headers` over `parameters.headers or {}` -/
def getHeaders (headers : Option Headers) (tok : Option Str) : Headers :=
  let h := headers.getD []
  if h.any (fun kv => mentionsAuth kv.1) then h
  else
    match tok with
    | none => h
    | some t => if t = [] then h else h ++ [(sAuthName, bearerValue t)]

/-- the headers both HTTP clients are created with -/
def clientHeaders (headers : Option Headers) (tok : Option Str) : Headers :=
  getHeaders (setupAuth headers tok) tok

/-! ## session id -/

def sSessionEq : Str := ['s','e','s','s','i','o','n','_','i','d','=']

/-- text after the first occurrence of `pat` (`s.split(pat, 1)[1]`), if any -/
def afterFirst (pat : Str) : Str → Option Str
  | [] => if pat = [] then some [] else none
  | c :: cs =>
    match stripPrefix pat (c :: cs) with
    | some r => some r
    | none => afterFirst pat cs

/-- text before the first occurrence of `pat` (`s.split(pat)[0]`) -/
def beforeFirst (pat : Str) : Str → Str
  | [] => []
  | c :: cs => if startsWith pat (c :: cs) then [] else c :: beforeFirst pat cs

/-- `url.split("session_id=")[1].split("&")[0]` when `"session_id=" in url` -/
def sessionIdOf (url : Str) : Option Str :=
  match afterFirst sSessionEq url with
  | none => none
  | some r => some (beforeFirst ['&'] (beforeFirst sSessionEq r))

/-- `is_connected()` -/
def isConnected (connectedSet : Bool) (haveUrl : Bool) : Bool := connectedSet && haveUrl

/-! ## parameter validation -/

inductive Field where
  | url | timeout | maxReconnect | reconnectDelay | keepAlive
  deriving DecidableEq, Repr

structure ParamIn where
  url : Str
  /-- the numbers, by sign: any `Int` with the sign of the value -/
  timeout : Int
  maxReconnect : Int
  reconnectDelay : Int
  keepAlive : Int
  sseEndpoint : Str
  messageBase : Str
  deriving Repr

structure ParamOut where
  url : Str
  sseEndpoint : Str
  messageBase : Str
  deriving DecidableEq, Repr

def sHttpScheme : Str := ['h','t','t','p',':','/','/']
def sHttpsScheme : Str := ['h','t','t','p','s',':','/','/']

/-- the comparisons with zero a validator makes: which numbers it refuses -/
structure NumRules where
  timeout : Int → Bool
  maxReconnect : Int → Bool
  reconnectDelay : Int → Bool
  keepAlive : Int → Bool

/-- the rules as parameters.py states them (positive, non-negative, non-negative, positive) -/
def NumRules.source : NumRules :=
  { timeout := fun v => decide (v ≤ 0), maxReconnect := fun v => decide (v < 0),
    reconnectDelay := fun v => decide (v < 0), keepAlive := fun v => decide (v ≤ 0) }

def leadSlash (v : Str) : Str := if startsWith ['/'] v then v else '/' :: v

/-- the fields whose validator refuses the value (pydantic validates field by field and reports
every refusal) -/
def badFields (R : NumRules) (p : ParamIn) : List Field :=
  (if p.url = [] || !(startsWith sHttpScheme p.url || startsWith sHttpsScheme p.url) then [Field.url] else [])
  ++ (if R.timeout p.timeout then [Field.timeout] else [])
  ++ (if R.maxReconnect p.maxReconnect then [Field.maxReconnect] else [])
  ++ (if R.reconnectDelay p.reconnectDelay then [Field.reconnectDelay] else [])
  ++ (if R.keepAlive p.keepAlive then [Field.keepAlive] else [])

def validate (R : NumRules) (p : ParamIn) : Except (List Field) ParamOut :=
  if badFields R p = [] then
    .ok { url := normBase p.url, sseEndpoint := leadSlash p.sseEndpoint, messageBase := leadSlash p.messageBase }
  else .error (badFields R p)

/-! ## is_sse_url -/

def isSseUrl (indicators : List Str) (url : Str) : Bool :=
  !url.isEmpty && indicators.any (fun i => hasSub i (lower url))

/-- the indicator list of sse_client.py -/
def indicatorsSource : List Str :=
  [['/','s','s','e'], ['e','v','e','n','t','s'], ['s','t','r','e','a','m'], [':','8','0','8','0'], [':','3','0','0','0']]

/-! ## a transport that was never started -/

/-- `get_streams()` succeeds: the streams exist only between `__aenter__` and garbage collection -/
def streamsAvailable (h : Handles) : Bool :=
  !(h.incomingSend == .absent || h.outgoingSend == .absent)

def Handles.none : Handles := ⟨.absent, .absent, .absent, .absent, .absent, .absent, .absent⟩

end Verif.Model.SseUnits
