import Lean.Data.Json
import Verif.Drv.Errors
import Verif.Drv.Await
open Lean

/-- line protocol: one JSON object per line in, one per line out -/
def dispatch (j : Json) : Except String Json := do
  let m ← j.getObjValAs? String "m"
  match m with
  | "errors" => Verif.Drv.Errors.handle j
  | "await" => Verif.Drv.Await.handle j
  | _ => throw s!"unknown model {m}"

partial def loop (h : IO.FS.Stream) (out : IO.FS.Stream) : IO Unit := do
  let line ← h.getLine
  if line.isEmpty then return ()
  let r := match Json.parse line with
    | .error e => Json.mkObj [("driver_error", Json.str s!"parse: {e}")]
    | .ok j => match dispatch j with
      | .ok v => v
      | .error e => Json.mkObj [("driver_error", Json.str e)]
  out.putStrLn r.compress
  loop h out

def main : IO Unit := do
  let out ← IO.getStdout
  loop (← IO.getStdin) out
  out.flush
