-- Root of the `Verif` library: every property module.
import Verif.Props.C07
