-- Root of the `Verif` library: every property module.
import Verif.Props.C01
import Verif.Props.C07
import Verif.Props.C14
